#!/bin/bash
# usage: run_seeded.sh [seed-id ...]   (default: all under /verif/seeded)
# Applies each seeded change to /repo, runs the quick check of the property it
# breaks (meta.json "property", or the id prefix), undoes it, and prints a matrix.
cd /verif || exit 2
ids=("$@"); [ ${#ids[@]} -eq 0 ] && ids=($(ls seeded))
for id in "${ids[@]}"; do
  prop=${id%%_*}
  [ -f seeded/$id/meta.json ] && prop=$(python3 -c "import json;print(json.load(open('seeded/$id/meta.json'))['property'])")
  checks="$prop"; [ -f seeded/$id/meta.json ] && checks=$(python3 -c "import json;print(' '.join(json.load(open('seeded/$id/meta.json')).get('run_checks',['$prop'])))")
  git -C /repo apply /verif/seeded/$id/patch.diff || { echo "$id: APPLY-FAILED"; continue; }
  res=""
  for c in $checks; do
    out=$(timeout 1800 ./check $c quick -no-evidence 2>&1); rc=$?
    n=$(echo "$out" | grep -c "^VIOLATION")
    res="$res $c:exit=$rc,violations=$n"
    echo "$out" | grep "^VIOLATION\|counterexample" | head -3 | cut -c1-220 | sed "s/^/    /"
  done
  git -C /repo checkout -- .
  echo "$id:$res"
done
