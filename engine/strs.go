package main

import (
	"fmt"
)

// window concretises off/len (forking if symbolic) and returns the bytes.
func (e *Exec) strBytes(s *StringV) []*Term {
	if s.Tok != nil {
		panic(unsupported{"bytes of opaque string"})
	}
	off := int(e.pick(s.Off))
	n := int(e.pick(s.Len))
	if n == 0 {
		return nil
	}
	return s.B[off : off+n]
}

func (e *Exec) strConcLen(s *StringV) (off, n int, ok bool) {
	if s.Tok == nil && s.Off.IsConst() && s.Len.IsConst() {
		return int(s.Off.SVal()), int(s.Len.SVal()), true
	}
	return 0, 0, false
}

func (e *Exec) sliceWindow(s *SliceV) (off, n int) {
	if isNil(s) {
		return 0, 0
	}
	off = int(e.pick(s.Off))
	n = int(e.pick(s.Len))
	return
}

func (e *Exec) sliceBytes(s *SliceV) []*Term {
	off, n := e.sliceWindow(s)
	out := make([]*Term, n)
	for i := 0; i < n; i++ {
		t, ok := s.Arr.Elems[off+i].(*Term)
		if !ok {
			panic(unsupported{"byte view of non-byte slice"})
		}
		out[i] = t
	}
	return out
}

func (e *Exec) concreteString(s *StringV) (string, bool) {
	if s.Tok != nil || !s.Off.IsConst() || !s.Len.IsConst() {
		return "", false
	}
	off, n := int(s.Off.SVal()), int(s.Len.SVal())
	b := make([]byte, n)
	for i := 0; i < n; i++ {
		t := s.B[off+i]
		if !t.IsConst() {
			return "", false
		}
		b[i] = byte(t.Val)
	}
	return string(b), true
}

func (e *Exec) bytesEq(a, b []*Term) *Term {
	if len(a) != len(b) {
		return e.ctx.False
	}
	acc := make([]*Term, 0, len(a))
	for i := range a {
		t := e.ctx.Eq(a[i], b[i])
		if t.IsFalse() {
			return t
		}
		acc = append(acc, t)
	}
	return e.ctx.And(acc...)
}

func (e *Exec) strEq(a, b *StringV) *Term {
	c := e.ctx
	if a.Opq != nil || b.Opq != nil {
		return e.opaqueEq(a, b)
	}
	if a.Tok != nil || b.Tok != nil {
		if a.Tok != nil && b.Tok != nil {
			return c.Eq(a.Tok, b.Tok)
		}
		panic(unsupported{"comparison of opaque and concrete string"})
	}
	if _, _, ok := e.strConcLen(a); ok {
		if _, _, ok2 := e.strConcLen(b); ok2 {
			return e.bytesEq(e.strBytes(a), e.strBytes(b))
		}
	}
	// symbolic lengths: lengths equal and bytes equal position-wise
	la, lb := a.Len, b.Len
	maxn := len(a.B)
	if len(b.B) < maxn {
		maxn = len(b.B)
	}
	conj := []*Term{c.Eq(la, lb)}
	for k := 0; k < maxn; k++ {
		kk := c.Int(int64(k))
		in := c.Slt(kk, la)
		if in.IsFalse() {
			break
		}
		conj = append(conj, c.Implies(in, c.Eq(e.byteAt(a.B, c.Add(a.Off, kk)), e.byteAt(b.B, c.Add(b.Off, kk)))))
	}
	// a length beyond the shorter backing store cannot be equal
	conj = append(conj, c.Sle(la, c.Int(int64(maxn))))
	return c.And(conj...)
}

// strLess: lexicographic byte order.
func (e *Exec) strLess(a, b *StringV, orEq bool) *Term {
	c := e.ctx
	x, y := e.strBytes(a), e.strBytes(b)
	// from the end: res(i) for suffixes
	var res *Term
	n := len(x)
	if len(y) < n {
		n = len(y)
	}
	// at position n: one string exhausted
	switch {
	case len(x) < len(y):
		res = c.True
	case len(x) > len(y):
		res = c.False
	default:
		res = c.Bool(orEq)
	}
	for i := n - 1; i >= 0; i-- {
		res = c.Ite(c.Ult(x[i], y[i]), c.True, c.Ite(c.Ult(y[i], x[i]), c.False, res))
	}
	return res
}

func (e *Exec) strConcat(a, b *StringV) *StringV {
	if a.Opq != nil || b.Opq != nil {
		return e.concatOpaque([]interface{}{a, b})
	}
	if a.Tok != nil || b.Tok != nil {
		panic(unsupported{"concatenation of opaque strings"})
	}
	x, y := e.strBytes(a), e.strBytes(b)
	out := make([]*Term, 0, len(x)+len(y))
	out = append(out, x...)
	out = append(out, y...)
	return &StringV{B: out, Off: e.ctx.Int(0), Len: e.ctx.Int(int64(len(out)))}
}

func (e *Exec) mkString(b []*Term) *StringV {
	return &StringV{B: b, Off: e.ctx.Int(0), Len: e.ctx.Int(int64(len(b)))}
}

func (e *Exec) mkByteSlice(b []*Term, site string) *SliceV {
	arr := &ArrayObj{Elems: make([]Value, len(b)), Obj: e.newObj("array", site)}
	for i, t := range b {
		arr.Elems[i] = t
	}
	n := e.ctx.Int(int64(len(b)))
	return &SliceV{Arr: arr, Off: e.ctx.Int(0), Len: n, Cap: n}
}

// subSlice makes s[lo:hi] with concrete bounds relative to a concrete window.
func (e *Exec) subSlice(s *SliceV, off, lo, hi int) *SliceV {
	c := e.ctx
	capv := c.Sub(c.Add(s.Off, s.Cap), c.Int(int64(off+lo)))
	return &SliceV{Arr: s.Arr, Off: c.Int(int64(off + lo)), Len: c.Int(int64(hi - lo)), Cap: capv}
}

func (e *Exec) goString(v Value) string {
	s, ok := e.concreteString(v.(*StringV))
	if !ok {
		panic(unsupported{"concrete string required"})
	}
	return s
}

func (e *Exec) fmtArg(v Value) (interface{}, bool) {
	switch x := v.(type) {
	case *IfaceV:
		if x == nil {
			return nil, true
		}
		return e.fmtArgT(x.Val, x)
	}
	return e.fmtArgT(v, nil)
}

func (e *Exec) fmtArgT(v Value, iv *IfaceV) (interface{}, bool) {
	switch x := v.(type) {
	case *Term:
		if !x.IsConst() {
			return nil, false
		}
		if x.W == 0 {
			return x.Val == 1, true
		}
		if iv != nil && !isSigned(iv.Typ) {
			return x.Val, true
		}
		return int(x.SVal()), true
	case *StringV:
		s, ok := e.concreteString(x)
		return s, ok
	case *ErrorV:
		return fmt.Errorf("%s", x.Tag), true
	}
	return nil, false
}

func (e *Exec) mkOpaque(kind string, parts ...interface{}) *StringV {
	return &StringV{Tok: e.ctx.Int(0), Opq: &Opaque{Kind: kind, Parts: parts}, Off: e.ctx.Int(0), Len: e.ctx.Int(0)}
}

// opaqueEq: structural equality of opaque strings; an opaque number/bool
// against a literal is decided by parsing the literal.
func (e *Exec) opaqueEq(a, b *StringV) *Term {
	c := e.ctx
	if a.Opq == nil {
		a, b = b, a
	}
	if b.Opq == nil {
		lit, ok := e.concreteString(b)
		if !ok {
			panic(unsupported{"comparison of an opaque string with a symbolic one"})
		}
		switch a.Opq.Kind {
		case "bool":
			t := a.Opq.Parts[0].(*Term)
			if lit == "true" {
				return t
			}
			if lit == "false" {
				return c.Not(t)
			}
			return c.False
		case "dec-s", "dec-u":
			x := a.Opq.Parts[0].(*Term)
			var v uint64
			neg := false
			digits := lit
			if len(digits) > 0 && digits[0] == '-' {
				neg = true
				digits = digits[1:]
			}
			if len(digits) == 0 || len(digits) > 19 || (len(digits) > 1 && digits[0] == '0') {
				return c.False
			}
			for i := 0; i < len(digits); i++ {
				if digits[i] < '0' || digits[i] > '9' {
					return c.False
				}
				v = v*10 + uint64(digits[i]-'0')
			}
			if neg {
				if a.Opq.Kind == "dec-u" || v == 0 {
					return c.False
				}
				v = -v
			}
			return c.Eq(x, c.BV(v, x.W))
		}
		return c.False
	}
	ka, kb := a.Opq.Kind, b.Opq.Kind
	if ka != kb {
		if (ka == "dec-s" && kb == "dec-u") || (ka == "dec-u" && kb == "dec-s") {
			x, y := a.Opq.Parts[0].(*Term), b.Opq.Parts[0].(*Term)
			return c.And(c.Eq(x, y), c.Sle(c.BV(0, x.W), x))
		}
		return c.False
	}
	if len(a.Opq.Parts) != len(b.Opq.Parts) {
		return c.False
	}
	acc := c.True
	for i := range a.Opq.Parts {
		switch x := a.Opq.Parts[i].(type) {
		case *Term:
			y, ok := b.Opq.Parts[i].(*Term)
			if !ok || y.W != x.W {
				return c.False
			}
			acc = c.And(acc, c.Eq(x, y))
		case *StringV:
			y, ok := b.Opq.Parts[i].(*StringV)
			if !ok {
				return c.False
			}
			acc = c.And(acc, e.strEq(x, y))
		}
	}
	return acc
}
