package main

// Runtime values of the symbolic interpreter. The heap is concrete in shape:
// objects, pointers, slice headers, struct containers; scalars are terms.

import (
	"fmt"
	"go/types"

	"golang.org/x/tools/go/ssa"
)

type Value interface{}

// Object identifies one allocation (for write barriers / purity checks).
type Object struct {
	ID    int
	Epoch int
	Kind  string
	Site  string
}

type Pointer struct {
	Slot *Value
	Obj  *Object
	// SymElems/SymIdx: pointer to elems[idx] of a scalar array with a symbolic
	// index (loads are ite-selects, stores are ite-updates of every element).
	SymElems []Value
	SymIdx   *Term
}

type ArrayObj struct {
	Elems []Value
	Obj   *Object
}

type SliceV struct {
	Arr           *ArrayObj
	Off, Len, Cap *Term
}

type StringV struct {
	B        []*Term
	Off, Len *Term
	Alias    *ArrayObj // non-nil when the string shares memory with a byte array (unsafe conversion)
	Tok      *Term     // non-nil: opaque token string (uninterpreted); B is nil
	Opq      *Opaque   // structured opaque string (Tok is a placeholder then)
}

// Opaque is a string whose text is not modelled but whose identity is: equal
// kind and equal parts mean equal text (formatting functions are injective on
// their arguments). Parts are *Term or *StringV.
type Opaque struct {
	Kind  string
	Parts []interface{}
}

type StructV struct {
	Fields []Value
}

type ArrayV struct {
	Elems []Value
	Obj   *Object   // set when it is the root of an allocation
	AO    *ArrayObj // slice view sharing Elems
}

type IfaceV struct {
	Typ types.Type
	Val Value
}

type mapEntry struct {
	K, V Value
}

type MapV struct {
	Obj     *Object
	Entries []*mapEntry
	KeyT    types.Type
	ValT    types.Type
}

type FuncV struct {
	Fn   *ssa.Function
	Env  []Value
	Bltn *ssa.Builtin
}

type TupleV []Value

// RegexV is what regexp.MustCompile returns in the interpreter.
type RegexV struct {
	Pattern string
}

// ErrorV is the dynamic value behind error interfaces made by errors.New /
// fmt.Errorf and behind external error globals (io.EOF ...).
type ErrorV struct {
	Tag string // call site or global name
	ID  int
}

type mapIter struct {
	m       *MapV
	keys    []*mapEntry
	visited []bool
	isStr   bool
	s       *StringV
	pos     int
}

func isNil(v Value) bool {
	switch x := v.(type) {
	case nil:
		return true
	case *Pointer:
		return x == nil
	case *SliceV:
		return x == nil || x.Arr == nil
	case *MapV:
		return x == nil
	case *IfaceV:
		return x == nil
	case *FuncV:
		return x == nil
	}
	return false
}

func typeWidth(t types.Type) int {
	switch b := t.Underlying().(type) {
	case *types.Basic:
		switch b.Kind() {
		case types.Bool, types.UntypedBool:
			return 0
		case types.Int8, types.Uint8:
			return 8
		case types.Int16, types.Uint16:
			return 16
		case types.Int32, types.Uint32, types.UntypedRune, types.Float32:
			return 32
		case types.Int, types.Uint, types.Int64, types.Uint64, types.Uintptr, types.UntypedInt, types.Float64, types.UntypedFloat:
			return 64
		}
	}
	return -1
}

func isSigned(t types.Type) bool {
	if b, ok := t.Underlying().(*types.Basic); ok {
		return b.Info()&types.IsInteger != 0 && b.Info()&types.IsUnsigned == 0
	}
	return false
}

func isString(t types.Type) bool {
	b, ok := t.Underlying().(*types.Basic)
	return ok && b.Info()&types.IsString != 0
}

func isFloat(t types.Type) bool {
	b, ok := t.Underlying().(*types.Basic)
	return ok && b.Info()&types.IsFloat != 0
}

func (e *Exec) newObj(kind, site string) *Object {
	e.nextObj++
	return &Object{ID: e.nextObj, Epoch: e.epoch, Kind: kind, Site: site}
}

func (e *Exec) constString(s string) *StringV {
	b := make([]*Term, len(s))
	for i := 0; i < len(s); i++ {
		b[i] = e.ctx.BV(uint64(s[i]), 8)
	}
	return &StringV{B: b, Off: e.ctx.Int(0), Len: e.ctx.Int(int64(len(s)))}
}

func (e *Exec) zero(t types.Type) Value {
	switch u := t.Underlying().(type) {
	case *types.Basic:
		if u.Info()&types.IsString != 0 {
			return e.constString("")
		}
		if u.Kind() == types.UnsafePointer {
			return (*Pointer)(nil)
		}
		w := typeWidth(t)
		if w == 0 {
			return e.ctx.False
		}
		if w > 0 {
			return e.ctx.BV(0, w)
		}
	case *types.Pointer:
		return (*Pointer)(nil)
	case *types.Slice:
		return &SliceV{Off: e.ctx.Int(0), Len: e.ctx.Int(0), Cap: e.ctx.Int(0)}
	case *types.Map:
		return (*MapV)(nil)
	case *types.Interface:
		return (*IfaceV)(nil)
	case *types.Signature:
		return (*FuncV)(nil)
	case *types.Chan:
		return nil
	case *types.Struct:
		s := &StructV{Fields: make([]Value, u.NumFields())}
		for i := range s.Fields {
			s.Fields[i] = e.zero(u.Field(i).Type())
		}
		return s
	case *types.Array:
		a := &ArrayV{Elems: make([]Value, u.Len())}
		for i := range a.Elems {
			a.Elems[i] = e.zero(u.Elem())
		}
		return a
	case *types.Tuple:
		tv := make(TupleV, u.Len())
		for i := range tv {
			tv[i] = e.zero(u.At(i).Type())
		}
		return tv
	}
	panic(unsupported{fmt.Sprintf("zero value of %s", t)})
}

// copyVal gives value semantics to struct/array containers.
func copyVal(v Value) Value {
	switch x := v.(type) {
	case *StructV:
		if x == nil {
			return x
		}
		n := &StructV{Fields: make([]Value, len(x.Fields))}
		for i, f := range x.Fields {
			n.Fields[i] = copyVal(f)
		}
		return n
	case *ArrayV:
		n := &ArrayV{Elems: make([]Value, len(x.Elems))}
		for i, f := range x.Elems {
			n.Elems[i] = copyVal(f)
		}
		return n
	}
	return v
}

// assign stores v into *dst keeping container identity (so pointers to fields
// of the destination stay valid).
func assign(dst *Value, v Value) {
	switch x := v.(type) {
	case *StructV:
		if d, ok := (*dst).(*StructV); ok && d != nil && len(d.Fields) == len(x.Fields) {
			for i := range x.Fields {
				assign(&d.Fields[i], x.Fields[i])
			}
			return
		}
		*dst = copyVal(v)
		return
	case *ArrayV:
		if d, ok := (*dst).(*ArrayV); ok && d != nil && len(d.Elems) == len(x.Elems) {
			for i := range x.Elems {
				assign(&d.Elems[i], x.Elems[i])
			}
			return
		}
		*dst = copyVal(v)
		return
	}
	*dst = v
}

type unsupported struct{ what string }

func (u unsupported) Error() string { return "unsupported: " + u.what }
