package main

import (
	"fmt"
	"go/constant"
	"go/token"
	"go/types"
	"math"

	"golang.org/x/tools/go/ssa"
)

func constantBool(c *ssa.Const) bool     { return constant.BoolVal(c.Value) }
func constantString(c *ssa.Const) string { return constant.StringVal(c.Value) }
func floatBits(c *ssa.Const, w int) uint64 {
	f := c.Float64()
	if w == 32 {
		return uint64(math.Float32bits(float32(f)))
	}
	return math.Float64bits(f)
}

func (e *Exec) step(f *frame, ins ssa.Instruction) {
	switch x := ins.(type) {
	case *ssa.DebugRef:
	case *ssa.Alloc:
		elem := x.Type().(*types.Pointer).Elem()
		obj := e.newObj("alloc", e.eng.pos(x.Pos()))
		slot := new(Value)
		*slot = e.zero(elem)
		if a, ok := (*slot).(*ArrayV); ok {
			a.Obj = obj
		}
		f.env[x] = &Pointer{Slot: slot, Obj: obj}
	case *ssa.Phi:
		if v, ok := f.phiOv[x]; ok {
			f.env[x] = v
			return
		}
		for i, p := range x.Block().Preds {
			if p == f.prev {
				f.env[x] = e.get(f, x.Edges[i])
				return
			}
		}
		panic(unsupported{"phi without matching predecessor"})
	case *ssa.BinOp:
		f.env[x] = e.binop(x.Op, e.get(f, x.X), e.get(f, x.Y), x.X.Type(), x.Y.Type())
	case *ssa.UnOp:
		f.env[x] = e.unop(x, e.get(f, x.X))
	case *ssa.Store:
		p := e.get(f, x.Addr).(*Pointer)
		if p == nil {
			e.goPanic("nil", "nil pointer dereference (store)")
		}
		e.checkWrite(p.Obj)
		if p.SymElems != nil {
			v := e.get(f, x.Val).(*Term)
			for k := range p.SymElems {
				p.SymElems[k] = e.ctx.Ite(e.ctx.Eq(p.SymIdx, e.ctx.Int(int64(k))), v, p.SymElems[k].(*Term))
			}
			return
		}
		assign(p.Slot, e.get(f, x.Val))
	case *ssa.FieldAddr:
		p := e.get(f, x.X).(*Pointer)
		if p == nil {
			e.goPanic("nil", "nil pointer dereference (field address)")
		}
		s, ok := (*p.Slot).(*StructV)
		if !ok {
			panic(unsupported{fmt.Sprintf("FieldAddr on %T", *p.Slot)})
		}
		f.env[x] = &Pointer{Slot: &s.Fields[x.Field], Obj: p.Obj}
	case *ssa.Field:
		s := e.get(f, x.X).(*StructV)
		f.env[x] = copyVal(s.Fields[x.Field])
	case *ssa.IndexAddr:
		f.env[x] = e.indexAddr(e.get(f, x.X), e.get(f, x.Index).(*Term), x.Index.Type())
	case *ssa.Index:
		f.env[x] = e.index(e.get(f, x.X), e.get(f, x.Index).(*Term), x.Index.Type())
	case *ssa.Slice:
		var lo, hi, mx *Term
		if x.Low != nil {
			lo = e.toInt(e.get(f, x.Low).(*Term), x.Low.Type())
		}
		if x.High != nil {
			hi = e.toInt(e.get(f, x.High).(*Term), x.High.Type())
		}
		if x.Max != nil {
			mx = e.toInt(e.get(f, x.Max).(*Term), x.Max.Type())
		}
		f.env[x] = e.sliceOp(e.get(f, x.X), lo, hi, mx)
	case *ssa.Call:
		f.env[x] = e.call(f, &x.Call, x)
	case *ssa.Extract:
		f.env[x] = e.get(f, x.Tuple).(TupleV)[x.Index]
	case *ssa.MakeSlice:
		n := int(e.pick(e.toInt(e.get(f, x.Len).(*Term), x.Len.Type())))
		c := int(e.pick(e.toInt(e.get(f, x.Cap).(*Term), x.Cap.Type())))
		if n < 0 || c < n {
			e.goPanic("bounds", "makeslice: len/cap out of range")
		}
		if c > 1<<20 {
			panic(unsupported{"makeslice too large"})
		}
		et := x.Type().Underlying().(*types.Slice).Elem()
		f.env[x] = e.newSlice(et, n, c, e.eng.pos(x.Pos()))
	case *ssa.MakeMap:
		mt := x.Type().Underlying().(*types.Map)
		f.env[x] = &MapV{Obj: e.newObj("map", e.eng.pos(x.Pos())), KeyT: mt.Key(), ValT: mt.Elem()}
	case *ssa.MapUpdate:
		m := e.get(f, x.Map).(*MapV)
		if m == nil {
			e.goPanic("nil", "assignment to entry in nil map")
		}
		e.checkWrite(m.Obj)
		e.mapSet(m, e.get(f, x.Key), copyVal(e.get(f, x.Value)))
	case *ssa.Lookup:
		xv := e.get(f, x.X)
		if s, ok := xv.(*StringV); ok {
			f.env[x] = e.stringIndex(s, e.toInt(e.get(f, x.Index).(*Term), x.Index.Type()))
			return
		}
		m := xv.(*MapV)
		v, ok := e.mapGet(m, e.get(f, x.Index))
		var res Value
		if ok {
			res = copyVal(v)
		} else {
			res = e.zero(x.X.Type().Underlying().(*types.Map).Elem())
		}
		if x.CommaOk {
			f.env[x] = TupleV{res, e.ctx.Bool(ok)}
		} else {
			f.env[x] = res
		}
	case *ssa.MakeClosure:
		fn := x.Fn.(*ssa.Function)
		env := make([]Value, len(x.Bindings))
		for i, b := range x.Bindings {
			env[i] = e.get(f, b)
		}
		f.env[x] = &FuncV{Fn: fn, Env: env}
	case *ssa.MakeInterface:
		f.env[x] = &IfaceV{Typ: x.X.Type(), Val: copyVal(e.get(f, x.X))}
	case *ssa.ChangeInterface:
		f.env[x] = e.get(f, x.X)
	case *ssa.ChangeType:
		f.env[x] = e.get(f, x.X)
	case *ssa.Convert:
		f.env[x] = e.convert(e.get(f, x.X), x.X.Type(), x.Type())
	case *ssa.TypeAssert:
		f.env[x] = e.typeAssert(x, e.get(f, x.X))
	case *ssa.Range:
		xv := e.get(f, x.X)
		if s, ok := xv.(*StringV); ok {
			f.env[x] = &mapIter{isStr: true, s: s}
			return
		}
		m := xv.(*MapV)
		it := &mapIter{m: m}
		if m != nil {
			it.keys = append(it.keys, m.Entries...)
			it.visited = make([]bool, len(it.keys))
		}
		f.env[x] = it
	case *ssa.Next:
		f.env[x] = e.next(x, e.get(f, x.Iter).(*mapIter))
	case *ssa.SliceToArrayPointer:
		panic(unsupported{"SliceToArrayPointer"})
	case *ssa.RunDefers:
		// deferred calls run in LIFO order (no recover: a Go panic ends the path
		// as a violation before this point)
		for len(f.defers) > 0 {
			d := f.defers[len(f.defers)-1]
			f.defers = f.defers[:len(f.defers)-1]
			d()
		}
	case *ssa.Defer:
		cc := x.Call
		args := make([]Value, 0, len(cc.Args))
		for _, a := range cc.Args {
			args = append(args, e.get(f, a))
		}
		if cc.IsInvoke() {
			recv, _ := e.get(f, cc.Value).(*IfaceV)
			m := cc.Method
			f.defers = append(f.defers, func() {
				if recv == nil {
					e.goPanic("nil", "deferred method call on nil interface")
				}
				e.invoke(recv, m, args)
			})
			return
		}
		switch fn := cc.Value.(type) {
		case *ssa.Builtin:
			if fn.Name() == "recover" {
				panic(unsupported{"recover"})
			}
			f.defers = append(f.defers, func() { e.builtin(fn, args, &cc, x) })
		case *ssa.Function:
			f.defers = append(f.defers, func() { e.callFunc(fn, args, nil) })
		default:
			fv, _ := e.get(f, cc.Value).(*FuncV)
			if fv == nil {
				panic(unsupported{"defer of nil function"})
			}
			f.defers = append(f.defers, func() { e.callFunc(fv.Fn, args, fv.Env) })
		}
	case *ssa.Go, *ssa.Select, *ssa.Send, *ssa.MakeChan:
		panic(unsupported{fmt.Sprintf("%T", ins)})
	default:
		panic(unsupported{fmt.Sprintf("instruction %T", ins)})
	}
}

// toInt converts an index/length operand of any integer type to a 64-bit term.
func (e *Exec) toInt(t *Term, typ types.Type) *Term {
	if t.W == 64 {
		return t
	}
	if isSigned(typ) {
		return e.ctx.Sext(t, 64)
	}
	return e.ctx.Zext(t, 64)
}

func (e *Exec) newSlice(et types.Type, n, c int, site string) *SliceV {
	arr := &ArrayObj{Elems: make([]Value, c), Obj: e.newObj("array", site)}
	for i := range arr.Elems {
		arr.Elems[i] = e.zero(et)
	}
	return &SliceV{Arr: arr, Off: e.ctx.Int(0), Len: e.ctx.Int(int64(n)), Cap: e.ctx.Int(int64(c))}
}

func (e *Exec) binop(op token.Token, a, b Value, ta, tb types.Type) Value {
	c := e.ctx
	switch x := a.(type) {
	case *Term:
		y := b.(*Term)
		if x.W == 0 {
			switch op {
			case token.EQL:
				return c.Eq(x, y)
			case token.NEQ:
				return c.Ne(x, y)
			case token.AND, token.LAND:
				return c.And(x, y)
			case token.OR, token.LOR:
				return c.Or(x, y)
			}
			panic(unsupported{"bool binop " + op.String()})
		}
		if isFloat(ta) {
			return e.floatOp(op, x, y, ta)
		}
		signed := isSigned(ta)
		switch op {
		case token.ADD:
			return c.Add(x, y)
		case token.SUB:
			return c.Sub(x, y)
		case token.MUL:
			return c.Mul(x, y)
		case token.QUO, token.REM:
			e.obligation(c.Eq(y, c.BV(0, y.W)), "div", "integer divide by zero")
			if signed {
				if op == token.QUO {
					return c.Bin(OpSDiv, x, y)
				}
				return c.Bin(OpSRem, x, y)
			}
			if op == token.QUO {
				return c.Bin(OpUDiv, x, y)
			}
			return c.Bin(OpURem, x, y)
		case token.AND:
			return c.BAnd(x, y)
		case token.OR:
			return c.BOr(x, y)
		case token.XOR:
			return c.BXor(x, y)
		case token.AND_NOT:
			return c.BAnd(x, c.BNot(y))
		case token.SHL, token.SHR:
			// shift count: unsigned semantics on any width; negative signed count panics
			if isSigned(tb) {
				e.obligation(c.Slt(y, c.BV(0, y.W)), "shift", "negative shift amount")
			}
			cnt := y
			if cnt.W < x.W {
				cnt = c.Zext(cnt, x.W)
			} else if cnt.W > x.W {
				big := c.Ule(c.BV(uint64(x.W), cnt.W), cnt)
				cnt = c.Ite(big, c.BV(uint64(x.W), x.W), c.Extract(cnt, 0, x.W))
			}
			if op == token.SHL {
				return c.Bin(OpShl, x, cnt)
			}
			if signed {
				return c.Bin(OpAshr, x, cnt)
			}
			return c.Bin(OpLshr, x, cnt)
		case token.EQL:
			return c.Eq(x, y)
		case token.NEQ:
			return c.Ne(x, y)
		case token.LSS:
			if signed {
				return c.Slt(x, y)
			}
			return c.Ult(x, y)
		case token.LEQ:
			if signed {
				return c.Sle(x, y)
			}
			return c.Ule(x, y)
		case token.GTR:
			if signed {
				return c.Slt(y, x)
			}
			return c.Ult(y, x)
		case token.GEQ:
			if signed {
				return c.Sle(y, x)
			}
			return c.Ule(y, x)
		}
	case *StringV:
		y := b.(*StringV)
		switch op {
		case token.ADD:
			return e.strConcat(x, y)
		case token.EQL:
			return e.strEq(x, y)
		case token.NEQ:
			return c.Not(e.strEq(x, y))
		case token.LSS:
			return e.strLess(x, y, false)
		case token.LEQ:
			return e.strLess(x, y, true)
		case token.GTR:
			return e.strLess(y, x, false)
		case token.GEQ:
			return e.strLess(y, x, true)
		}
	}
	switch op {
	case token.EQL:
		return e.eqVal(a, b)
	case token.NEQ:
		return c.Not(e.eqVal(a, b))
	}
	panic(unsupported{fmt.Sprintf("binop %s on %T", op, a)})
}

func (e *Exec) floatOp(op token.Token, x, y *Term, t types.Type) Value {
	if x.IsConst() && y.IsConst() && x.W == 64 {
		a, b := math.Float64frombits(x.Val), math.Float64frombits(y.Val)
		switch op {
		case token.ADD:
			return e.ctx.BV(math.Float64bits(a+b), 64)
		case token.SUB:
			return e.ctx.BV(math.Float64bits(a-b), 64)
		case token.MUL:
			return e.ctx.BV(math.Float64bits(a*b), 64)
		case token.QUO:
			return e.ctx.BV(math.Float64bits(a/b), 64)
		case token.EQL:
			return e.ctx.Bool(a == b)
		case token.NEQ:
			return e.ctx.Bool(a != b)
		case token.LSS:
			return e.ctx.Bool(a < b)
		case token.LEQ:
			return e.ctx.Bool(a <= b)
		case token.GTR:
			return e.ctx.Bool(a > b)
		case token.GEQ:
			return e.ctx.Bool(a >= b)
		}
	}
	panic(unsupported{"symbolic floating point"})
}

func (e *Exec) eqVal(a, b Value) *Term {
	c := e.ctx
	switch x := a.(type) {
	case *Term:
		return c.Eq(x, b.(*Term))
	case *StringV:
		return e.strEq(x, b.(*StringV))
	case *Pointer:
		y := b.(*Pointer)
		if x == nil || y == nil {
			return c.Bool(x == nil && y == nil)
		}
		return c.Bool(x.Slot == y.Slot)
	case *IfaceV:
		y, ok := b.(*IfaceV)
		if !ok {
			panic(unsupported{"iface compared with non-iface"})
		}
		if x == nil || y == nil {
			return c.Bool(x == nil && y == nil)
		}
		if !types.Identical(x.Typ, y.Typ) {
			return c.False
		}
		return e.eqVal(x.Val, y.Val)
	case *ErrorV:
		y, ok := b.(*ErrorV)
		return c.Bool(ok && x == y)
	case *StructV:
		y := b.(*StructV)
		acc := c.True
		for i := range x.Fields {
			acc = c.And(acc, e.eqVal(x.Fields[i], y.Fields[i]))
		}
		return acc
	case *ArrayV:
		y := b.(*ArrayV)
		acc := c.True
		for i := range x.Elems {
			acc = c.And(acc, e.eqVal(x.Elems[i], y.Elems[i]))
		}
		return acc
	case *SliceV:
		y := b.(*SliceV)
		if isNil(x) || isNil(y) {
			return c.Bool(isNil(x) && isNil(y))
		}
	case *MapV:
		y := b.(*MapV)
		if x == nil || y == nil {
			return c.Bool(x == nil && y == nil)
		}
	case *FuncV:
		y := b.(*FuncV)
		if x == nil || y == nil {
			return c.Bool(x == nil && y == nil)
		}
	case nil:
		return c.Bool(isNil(b))
	}
	panic(unsupported{fmt.Sprintf("equality on %T", a)})
}

func (e *Exec) unop(x *ssa.UnOp, v Value) Value {
	c := e.ctx
	switch x.Op {
	case token.MUL:
		p := v.(*Pointer)
		if p == nil {
			e.goPanic("nil", "nil pointer dereference (load)")
		}
		if p.SymElems != nil {
			return e.selectElem(p.SymElems, p.SymIdx)
		}
		return copyVal(*p.Slot)
	case token.NOT:
		return c.Not(v.(*Term))
	case token.SUB:
		t := v.(*Term)
		if isFloat(x.X.Type()) {
			if t.IsConst() {
				return c.BV(math.Float64bits(-math.Float64frombits(t.Val)), 64)
			}
			panic(unsupported{"symbolic float negation"})
		}
		return c.Neg(t)
	case token.XOR:
		return c.BNot(v.(*Term))
	}
	panic(unsupported{"unop " + x.Op.String()})
}

func (e *Exec) convert(v Value, from, to types.Type) Value {
	c := e.ctx
	fu, tu := from.Underlying(), to.Underlying()
	switch x := v.(type) {
	case *Term:
		if isString(to) {
			// string(rune / byte)
			if x.IsConst() {
				return e.constString(string(rune(x.SVal())))
			}
			// symbolic rune: only ASCII is modelled; the restriction is an obligation-free assumption recorded as a note
			e.note("assume:string(rune) ASCII")
			e.assume(c.Ult(c.Zext(x, 64), c.Int(0x80)))
			return &StringV{B: []*Term{c.Extract(c.Zext(x, 64), 0, 8)}, Off: c.Int(0), Len: c.Int(1)}
		}
		tw := typeWidth(to)
		if tw < 0 {
			if b, ok := tu.(*types.Basic); ok && b.Kind() == types.UnsafePointer {
				panic(unsupported{"integer to unsafe.Pointer"})
			}
			panic(unsupported{fmt.Sprintf("convert %s -> %s", from, to)})
		}
		if isFloat(from) || isFloat(to) {
			return e.floatConv(x, from, to)
		}
		if tw == x.W {
			return x
		}
		if tw < x.W {
			return c.Extract(x, 0, tw)
		}
		if isSigned(from) {
			return c.Sext(x, tw)
		}
		return c.Zext(x, tw)
	case *StringV:
		if _, ok := tu.(*types.Slice); ok {
			if x.Tok == nil && !(x.Off.IsConst() && x.Len.IsConst()) {
				arr := &ArrayObj{Elems: make([]Value, len(x.B)), Obj: e.newObj("array", "[]byte(string)")}
				for i, b := range x.B {
					arr.Elems[i] = b
				}
				return &SliceV{Arr: arr, Off: x.Off, Len: x.Len, Cap: x.Len}
			}
			bs := e.strBytes(x)
			arr := &ArrayObj{Elems: make([]Value, len(bs)), Obj: e.newObj("array", "[]byte(string)")}
			for i, b := range bs {
				arr.Elems[i] = b
			}
			n := c.Int(int64(len(bs)))
			return &SliceV{Arr: arr, Off: c.Int(0), Len: n, Cap: n}
		}
		if isString(to) {
			return x
		}
	case *SliceV:
		if isString(to) {
			// string([]byte): copy. A symbolic window is kept symbolic over a
			// snapshot of the backing array (no fork).
			if isNil(x) {
				return e.constString("")
			}
			if !(x.Off.IsConst() && x.Len.IsConst()) && e.isByteArr(x.Arr) {
				bs := make([]*Term, len(x.Arr.Elems))
				for i, el := range x.Arr.Elems {
					bs[i] = el.(*Term)
				}
				return &StringV{B: bs, Off: x.Off, Len: x.Len}
			}
			bs := e.sliceBytes(x)
			return &StringV{B: bs, Off: c.Int(0), Len: c.Int(int64(len(bs)))}
		}
	case *Pointer:
		_ = fu
		return x
	}
	panic(unsupported{fmt.Sprintf("convert %s -> %s (%T)", from, to, v)})
}

func (e *Exec) floatConv(x *Term, from, to types.Type) Value {
	if !x.IsConst() {
		// symbolic floats are bit patterns; conversions are uninterpreted
		// (injectivity of widening is not modelled)
		name := fmt.Sprintf("fconv_%s_%s", from.Underlying().String(), to.Underlying().String())
		return e.ctx.UF(name, typeWidth(to), x)
	}
	switch {
	case isFloat(from) && isFloat(to):
		if typeWidth(from) == typeWidth(to) {
			return x
		}
		if typeWidth(from) == 32 {
			return e.ctx.BV(math.Float64bits(float64(math.Float32frombits(uint32(x.Val)))), 64)
		}
		return e.ctx.BV(uint64(math.Float32bits(float32(math.Float64frombits(x.Val)))), 32)
	case isFloat(to):
		var fv float64
		if isSigned(from) {
			fv = float64(x.SVal())
		} else {
			fv = float64(x.Val)
		}
		if typeWidth(to) == 32 {
			return e.ctx.BV(uint64(math.Float32bits(float32(fv))), 32)
		}
		return e.ctx.BV(math.Float64bits(fv), 64)
	default:
		var fv float64
		if typeWidth(from) == 32 {
			fv = float64(math.Float32frombits(uint32(x.Val)))
		} else {
			fv = math.Float64frombits(x.Val)
		}
		if isSigned(to) {
			return e.ctx.BV(uint64(int64(fv)), typeWidth(to))
		}
		return e.ctx.BV(uint64(fv), typeWidth(to))
	}
}

func (e *Exec) typeAssert(x *ssa.TypeAssert, v Value) Value {
	iv, _ := v.(*IfaceV)
	ok := false
	var res Value
	if iv != nil {
		if types.IsInterface(x.AssertedType) {
			ok = types.Implements(iv.Typ, x.AssertedType.Underlying().(*types.Interface))
			res = iv
		} else {
			ok = types.Identical(iv.Typ, x.AssertedType)
			res = iv.Val
		}
	}
	if !ok {
		res = e.zero(x.AssertedType)
	}
	if x.CommaOk {
		return TupleV{res, e.ctx.Bool(ok)}
	}
	if !ok {
		e.goPanic("typeassert", "interface conversion failed")
	}
	return res
}

// ---------------------------------------------------------------- indexing

func (e *Exec) boundsCheck(idx, n *Term, what string) {
	c := e.ctx
	bad := c.Or(c.Slt(idx, c.Int(0)), c.Sle(n, idx))
	e.obligation(bad, "bounds", what)
}

func (e *Exec) indexAddr(xv Value, idx *Term, it types.Type) Value {
	idx = e.toInt(idx, it)
	switch x := xv.(type) {
	case *SliceV:
		if isNil(x) {
			e.goPanic("bounds", "index out of range on nil slice")
		}
		e.boundsCheck(idx, x.Len, "index out of range")
		pos := e.ctx.Add(x.Off, idx)
		if !pos.IsConst() && e.isScalarArr(x.Arr.Elems) {
			return &Pointer{Obj: x.Arr.Obj, SymElems: x.Arr.Elems, SymIdx: pos}
		}
		i := int(e.pick(pos))
		return &Pointer{Slot: &x.Arr.Elems[i], Obj: x.Arr.Obj}
	case *Pointer: // pointer to array
		if x == nil {
			e.goPanic("nil", "nil pointer dereference (index address)")
		}
		a := (*x.Slot).(*ArrayV)
		e.boundsCheck(idx, e.ctx.Int(int64(len(a.Elems))), "index out of range")
		if !idx.IsConst() && e.isScalarArr(a.Elems) {
			return &Pointer{Obj: x.Obj, SymElems: a.Elems, SymIdx: idx}
		}
		i := int(e.pick(idx))
		return &Pointer{Slot: &a.Elems[i], Obj: x.Obj}
	}
	panic(unsupported{fmt.Sprintf("IndexAddr on %T", xv)})
}

func (e *Exec) index(xv Value, idx *Term, it types.Type) Value {
	idx = e.toInt(idx, it)
	switch x := xv.(type) {
	case *ArrayV:
		e.boundsCheck(idx, e.ctx.Int(int64(len(x.Elems))), "index out of range")
		return e.selectElem(x.Elems, idx)
	case *StringV:
		return e.stringIndex(x, idx)
	}
	panic(unsupported{fmt.Sprintf("Index on %T", xv)})
}

// selectElem reads elems[idx] for a possibly symbolic idx (scalars only when symbolic).
func (e *Exec) selectElem(elems []Value, idx *Term) Value {
	if idx.IsConst() {
		return copyVal(elems[idx.SVal()])
	}
	if len(elems) > 0 {
		if _, ok := elems[0].(*Term); ok {
			if len(elems) > 256 && idx.isConstTree() && len(e.ctx.LeafValues(idx)) <= 64 {
				// a guarded value set: select per leaf instead of per element
				return e.ctx.mapLeaves(idx, func(x *Term) *Term {
					if p := x.SVal(); p >= 0 && p < int64(len(elems)) {
						return elems[p].(*Term)
					}
					return elems[len(elems)-1].(*Term)
				}, map[int]*Term{})
			}
			acc := elems[len(elems)-1].(*Term)
			for i := len(elems) - 2; i >= 0; i-- {
				acc = e.ctx.Ite(e.ctx.Eq(idx, e.ctx.Int(int64(i))), elems[i].(*Term), acc)
			}
			return acc
		}
	}
	return copyVal(elems[e.pick(idx)])
}

func (e *Exec) stringIndex(s *StringV, idx *Term) Value {
	if s.Tok != nil {
		panic(unsupported{"index into opaque string"})
	}
	e.boundsCheck(idx, s.Len, "string index out of range")
	return e.byteAt(s.B, e.ctx.Add(s.Off, idx))
}

// byteAt reads b[pos] for a possibly symbolic position.
func (e *Exec) byteAt(b []*Term, pos *Term) *Term {
	if pos.IsConst() {
		if p := pos.SVal(); p >= 0 && p < int64(len(b)) {
			return b[p]
		}
		// out of the backing store: only reachable under a guard that is false
		return e.ctx.BV(0, 8)
	}
	if len(b) == 0 {
		return e.ctx.BV(0, 8)
	}
	if len(b) > 256 && pos.isConstTree() && len(e.ctx.LeafValues(pos)) <= 64 {
		// a guarded value set: select per leaf instead of per backing byte
		return e.ctx.mapLeaves(pos, func(x *Term) *Term {
			if p := x.SVal(); p >= 0 && p < int64(len(b)) {
				return b[p]
			}
			return e.ctx.BV(0, 8)
		}, map[int]*Term{})
	}
	acc := b[len(b)-1]
	for i := len(b) - 2; i >= 0; i-- {
		acc = e.ctx.Ite(e.ctx.Eq(pos, e.ctx.Int(int64(i))), b[i], acc)
	}
	return acc
}

func (e *Exec) sliceOp(xv Value, lo, hi, mx *Term) Value {
	c := e.ctx
	if lo == nil {
		lo = c.Int(0)
	}
	switch x := xv.(type) {
	case *StringV:
		if x.Tok != nil {
			panic(unsupported{"slice of opaque string"})
		}
		if hi == nil {
			hi = x.Len
		}
		bad := c.Or(c.Slt(lo, c.Int(0)), c.Slt(hi, lo), c.Slt(x.Len, hi))
		e.obligation(bad, "bounds", "slice bounds out of range (string)")
		return &StringV{B: x.B, Off: c.Add(x.Off, lo), Len: c.Sub(hi, lo), Alias: x.Alias}
	case *SliceV:
		if hi == nil {
			hi = x.Len
		}
		capv := x.Cap
		if mx == nil {
			mx = capv
		}
		bad := c.Or(c.Slt(lo, c.Int(0)), c.Slt(hi, lo), c.Slt(mx, hi), c.Slt(capv, mx))
		e.obligation(bad, "bounds", "slice bounds out of range")
		if isNil(x) {
			return x
		}
		return &SliceV{Arr: x.Arr, Off: c.Add(x.Off, lo), Len: c.Sub(hi, lo), Cap: c.Sub(mx, lo)}
	case *Pointer: // *array
		if x == nil {
			e.goPanic("nil", "slice of nil array pointer")
		}
		a := (*x.Slot).(*ArrayV)
		n := c.Int(int64(len(a.Elems)))
		if hi == nil {
			hi = n
		}
		if mx == nil {
			mx = n
		}
		bad := c.Or(c.Slt(lo, c.Int(0)), c.Slt(hi, lo), c.Slt(mx, hi), c.Slt(n, mx))
		e.obligation(bad, "bounds", "slice bounds out of range (array)")
		arr := e.arrayObjOf(a, x.Obj)
		return &SliceV{Arr: arr, Off: lo, Len: c.Sub(hi, lo), Cap: c.Sub(mx, lo)}
	}
	panic(unsupported{fmt.Sprintf("Slice on %T", xv)})
}

// arrayObjOf makes the ArrayObj view that shares storage with an in-place array value.
func (e *Exec) arrayObjOf(a *ArrayV, obj *Object) *ArrayObj {
	if obj == nil {
		obj = a.Obj
	}
	if a.AO == nil {
		a.AO = &ArrayObj{Elems: a.Elems, Obj: obj}
	}
	return a.AO
}

func (e *Exec) isScalarArr(el []Value) bool {
	if len(el) == 0 {
		return false
	}
	_, ok := el[0].(*Term)
	return ok
}

// ---------------------------------------------------------------- maps

func (e *Exec) mapFind(m *MapV, k Value) *mapEntry {
	if m == nil {
		return nil
	}
	for _, en := range m.Entries {
		if e.branch(e.eqVal(en.K, k)) {
			return en
		}
	}
	return nil
}

func (e *Exec) mapGet(m *MapV, k Value) (Value, bool) {
	if en := e.mapFind(m, k); en != nil {
		return en.V, true
	}
	return nil, false
}

func (e *Exec) mapSet(m *MapV, k, v Value) {
	if en := e.mapFind(m, k); en != nil {
		en.V = v
		return
	}
	m.Entries = append(m.Entries, &mapEntry{K: copyVal(k), V: v})
}

func (e *Exec) mapDelete(m *MapV, k Value) {
	if m == nil {
		return
	}
	e.checkWrite(m.Obj)
	for i, en := range m.Entries {
		if e.branch(e.eqVal(en.K, k)) {
			m.Entries = append(append([]*mapEntry{}, m.Entries[:i]...), m.Entries[i+1:]...)
			return
		}
	}
}

func (e *Exec) next(x *ssa.Next, it *mapIter) Value {
	c := e.ctx
	if it.isStr {
		bs := e.strBytes(it.s)
		if it.pos >= len(bs) {
			return TupleV{c.False, c.Int(0), c.BV(0, 32)}
		}
		b := bs[it.pos]
		if !b.IsConst() {
			e.note("assume:range-over-string ASCII")
			e.assume(c.Ult(b, c.BV(0x80, 8)))
		} else if b.Val >= 0x80 {
			panic(unsupported{"range over non-ASCII string"})
		}
		i := it.pos
		it.pos++
		return TupleV{c.True, c.Int(int64(i)), c.Zext(b, 32)}
	}
	// candidates: unvisited keys still present in the map
	var cand []int
	for i, en := range it.keys {
		if it.visited[i] {
			continue
		}
		present := false
		for _, cur := range it.m.Entries {
			if cur == en {
				present = true
			}
		}
		if present {
			cand = append(cand, i)
		}
	}
	mt := it.m
	var kz, vz Value
	if mt != nil {
		kz, vz = e.zero(mt.KeyT), e.zero(mt.ValT)
	} else {
		tt := x.Type().(*types.Tuple)
		kz, vz = e.zero(tt.At(1).Type()), e.zero(tt.At(2).Type())
	}
	if len(cand) == 0 {
		return TupleV{c.False, kz, vz}
	}
	pickI := cand[e.choose(len(cand))]
	it.visited[pickI] = true
	en := it.keys[pickI]
	return TupleV{c.True, copyVal(en.K), copyVal(en.V)}
}
