package main

// Path exploration by re-execution: a path is identified by its script of
// decisions; alternatives found at new symbolic branches are queued as scripts.

import (
	"fmt"
	"go/token"
	"go/types"
	"os"
	"sort"
	"strings"

	"golang.org/x/tools/go/ssa"
)

var dbgUnsat = os.Getenv("GOSMT_DBGUNSAT") != ""

type decisionSrc struct {
	script []int64
	pos    int
	alts   [][]int64
}

// control-flow exceptions
type pathEnd struct{ reason string }
type notPure struct{ what string }

type Violation struct {
	Kind   string            `json:"kind"` // assert | panic | bounds | nil | div | typeassert | barrier
	Label  string            `json:"label"`
	Site   string            `json:"site"`
	Model  map[string]uint64 `json:"model"`
	Script []int64           `json:"script"`
	Stack  []string          `json:"stack"`
}

type InputVar struct {
	Name string
	W    int
}

type Exec struct {
	eng      *Engine
	ctx      *Ctx
	sol      *Solver
	src      *decisionSrc
	pc       []*Term
	globs    map[*ssa.Global]*Pointer
	pools    map[*Object][]Value // sync.Pool contents per pool object
	builders map[*Value][]*Term  // strings.Builder contents per builder address
	extErr   map[string]*IfaceV

	nextObj int
	epoch   int
	sumEp   int  // >0 while summarising: stores to objects with Epoch < sumEp abort
	barrier int  // >0: stores to objects with Epoch < barrier are violations (C14)
	lazy    int  // >0: skip feasibility checks at branches
	force   bool // check feasibility at the next branch even in lazy mode
	sumBase int  // length of the path condition when the outermost summary began

	symSeq    map[string]int
	inputs    []InputVar
	steps     int
	decisions int
	frames    []frameRec

	// results of this path
	viol       []Violation
	reached    map[string]bool
	reachModel map[string]map[string]uint64
	notes      map[string]int
	globalWr   map[string]bool
	impure     map[*ssa.Function]bool
	errSeq     int
	cfg        *RunCfg
	initDone   bool
	lastModel  map[string]uint64
	oblCache   map[int][][]int
	pending    []pendingObl
	models     []*poolModel
	hname      string
	files      []*StringV // files declared to exist by the harness (nil: arbitrary file system)
	shared     *sharedCaches
}

type pendingObl struct {
	cond        *Term // pc-prefix ∧ bad
	kind, label string
	site        string
	stack       []string
	script      []int64
}

// poolModel is a solver model known to satisfy pc[:upTo].
type poolModel struct {
	m    map[string]uint64
	memo map[int]uint64
	upTo int
	dead bool
}

func (e *Exec) addModel(m map[string]uint64) {
	if m == nil {
		return
	}
	pm := &poolModel{m: m, memo: map[int]uint64{}, upTo: len(e.pc)}
	e.models = append(e.models, pm)
	if len(e.models) > 16 {
		e.models = e.models[len(e.models)-16:]
	}
	if e.shared != nil {
		e.shared.models = e.models
	}
}

// sharedCaches survive across the paths a worker runs in one term context.
type sharedCaches struct {
	models []*poolModel
	unsat  map[int][][]int // cond ID -> pc ID sets under which cond is infeasible
}

func (e *Exec) pcIDs() map[int]bool {
	cur := make(map[int]bool, len(e.pc))
	for _, p := range e.pc {
		cur[p.ID] = true
	}
	return cur
}

func (e *Exec) knownUnsat(cond *Term) bool {
	if e.shared == nil {
		return false
	}
	ents := e.shared.unsat[cond.ID]
	if len(ents) == 0 {
		return false
	}
	cur := e.pcIDs()
	for _, ent := range ents {
		ok := true
		for _, id := range ent {
			if !cur[id] {
				ok = false
				break
			}
		}
		if ok {
			return true
		}
	}
	return false
}

func (e *Exec) storeUnsat(cond *Term) {
	e.storeUnsatUnder(cond, e.pc)
}

// storeUnsatUnder records "pc ∧ cond is unsat" (most recent 8 path conditions
// per condition are kept).
func (e *Exec) storeUnsatUnder(cond *Term, pc []*Term) {
	if e.shared == nil {
		return
	}
	ids := make([]int, len(pc))
	for i, p := range pc {
		ids[i] = p.ID
	}
	ents := e.shared.unsat[cond.ID]
	if len(ents) >= 8 {
		ents = ents[1:]
	}
	e.shared.unsat[cond.ID] = append(ents, ids)
}

// feasible decides whether pc ∧ cond is satisfiable, using syntactic checks,
// pooled models and the unsat cache before the solver.
func (e *Exec) feasible(cond *Term, modelSaysYes bool) bool {
	if modelSaysYes {
		return true
	}
	nc := e.ctx.Not(cond)
	for _, p := range e.pc {
		if p == cond {
			return true
		}
		if p == nc {
			return false
		}
	}
	if e.knownUnsat(cond) {
		return false
	}
	r, m := e.sat(cond)
	switch r {
	case Sat:
		e.pc = append(e.pc, cond)
		e.addModel(m)
		e.pc = e.pc[:len(e.pc)-1]
	case Unsat:
		e.storeUnsat(cond)
		if dbgUnsat {
			fmt.Fprintf(os.Stderr, "UNSATBR %s pc=%d\n", e.where(), len(e.pc))
		}
	case Unknown:
		e.note("unknown:branch")
	}
	return r != Unsat
}

// modelFor reports whether some pooled model satisfies the current pc and gives
// cond the wanted value.
func (e *Exec) modelSays(cond *Term) (canTrue, canFalse bool) {
	for _, pm := range e.models {
		if pm.dead {
			continue
		}
		if pm.upTo > len(e.pc) {
			// pc was truncated (summaries); re-validate from scratch
			pm.upTo = 0
		}
		if len(pm.memo) > 150000 {
			pm.memo = map[int]uint64{}
		}
		ok := true
		for pm.upTo < len(e.pc) {
			if Eval(e.pc[pm.upTo], pm.m, pm.memo) != 1 {
				ok = false
				break
			}
			pm.upTo++
		}
		if !ok {
			pm.dead = true
			continue
		}
		if Eval(cond, pm.m, pm.memo) == 1 {
			canTrue = true
		} else {
			canFalse = true
		}
		if canTrue && canFalse {
			return
		}
	}
	return
}

type RunCfg struct {
	MaxSteps     int
	MaxDecisions int
	MaxEnum      int
	Summarize    map[string]bool
	Lazy         bool
	AllowPanic   bool
	Contracts    map[string]bool
}

func (e *Exec) fresh(name string, w int) *Term {
	n := e.symSeq[name]
	e.symSeq[name] = n + 1
	full := name
	if n > 0 {
		full = fmt.Sprintf("%s#%d", name, n)
	}
	e.inputs = append(e.inputs, InputVar{full, w})
	return e.ctx.Var(full, w)
}

func (e *Exec) sat(extra ...*Term) (Result, map[string]uint64) {
	return e.sol.CheckInc(e.pc, extra, true)
}

func (e *Exec) satNoModel(extra ...*Term) Result {
	r, _ := e.sol.CheckInc(e.pc, extra, false)
	return r
}

func (e *Exec) addPC(t *Term) {
	if t.IsTrue() {
		return
	}
	e.pc = append(e.pc, t)
}

func (e *Exec) altScript(v int64) []int64 {
	s := make([]int64, e.src.pos+1)
	copy(s, e.src.script[:e.src.pos])
	s[e.src.pos] = v
	return s
}

func (e *Exec) countDecision() {
	e.decisions++
	if e.decisions > e.cfg.MaxDecisions {
		e.note("bound-exceeded:decisions")
		panic(pathEnd{"bound exceeded: decisions"})
	}
}

// branch decides a boolean condition, forking when both sides are feasible.
func (e *Exec) branch(cond *Term) bool {
	if cond.IsConst() {
		return cond.Val == 1
	}
	e.countDecision()
	s := e.src
	if s.pos < len(s.script) {
		v := s.script[s.pos]
		s.pos++
		if v == 1 {
			e.addPC(cond)
			return true
		}
		e.addPC(e.ctx.Not(cond))
		return false
	}
	var tOK, fOK bool
	force := e.force
	e.force = false
	if e.lazy > 0 && !force {
		tOK, fOK = true, true
	} else {
		mt, mf := e.modelSays(cond)
		tOK = e.feasible(cond, mt)
		if !tOK {
			fOK = true // pc is feasible by invariant
		} else {
			fOK = e.feasible(e.ctx.Not(cond), mf)
		}
	}
	if !tOK && !fOK {
		panic(pathEnd{"infeasible"})
	}
	if tOK {
		if fOK {
			s.alts = append(s.alts, e.altScript(0))
		}
		s.script = append(s.script[:s.pos], 1)
		s.pos++
		e.addPC(cond)
		return true
	}
	s.script = append(s.script[:s.pos], 0)
	s.pos++
	e.addPC(e.ctx.Not(cond))
	return false
}

// pick concretises a term, forking over all its feasible values.
func (e *Exec) pick(t *Term) int64 {
	if t.IsConst() {
		return t.SVal()
	}
	e.countDecision()
	s := e.src
	if s.pos < len(s.script) {
		v := s.script[s.pos]
		s.pos++
		e.addPC(e.ctx.Eq(t, e.ctx.BV(uint64(v), t.W)))
		return v
	}
	var vals []int64
	var excl []*Term
	if t.isConstTree() {
		// guarded value set: often the path condition already pins it
		if k := e.narrow(t); k.IsConst() {
			s.script = append(s.script[:s.pos], k.SVal())
			s.pos++
			return k.SVal()
		}
		// otherwise the candidates are the leaves
		for _, v := range e.ctx.LeafValues(t) {
			eq := e.ctx.Eq(t, e.ctx.BV(v, t.W))
			mt, _ := e.modelSays(eq)
			if e.feasible(eq, mt) {
				vals = append(vals, signExt(v, t.W))
			}
		}
	} else {
		vals, excl = e.enumerate(t)
	}
	_ = excl
	for false {
		r, m := e.sat(excl...)
		if r == Unsat {
			break
		}
		if r == Unknown {
			e.note("unknown:pick")
			panic(pathEnd{"unknown while concretising"})
		}
		v := Eval(t, m, map[int]uint64{})
		vals = append(vals, signExt(v, t.W))
		excl = append(excl, e.ctx.Ne(t, e.ctx.BV(v, t.W)))
		if len(vals) > e.cfg.MaxEnum {
			e.note("bound-exceeded:enum")
			panic(pathEnd{"bound exceeded: concretisation fan-out"})
		}
	}
	if len(vals) == 0 {
		panic(pathEnd{"infeasible"})
	}
	sort.Slice(vals, func(i, j int) bool { return vals[i] < vals[j] })
	for _, v := range vals[1:] {
		s.alts = append(s.alts, e.altScript(v))
	}
	s.script = append(s.script[:s.pos], vals[0])
	s.pos++
	e.addPC(e.ctx.Eq(t, e.ctx.BV(uint64(vals[0]), t.W)))
	return vals[0]
}

// narrow replaces a guarded value set by its only feasible value when the path
// condition already pins it (sound: the equality is implied, nothing is
// assumed). Pooled models supply candidate values; one query confirms
// uniqueness.
func (e *Exec) narrow(t *Term) *Term {
	if t.IsConst() || !t.isConstTree() || e.lazy > 0 {
		return t
	}
	var cand uint64
	have := false
	for _, pm := range e.models {
		if pm.dead {
			continue
		}
		if pm.upTo > len(e.pc) {
			pm.upTo = 0
		}
		ok := true
		for pm.upTo < len(e.pc) {
			if Eval(e.pc[pm.upTo], pm.m, pm.memo) != 1 {
				ok = false
				break
			}
			pm.upTo++
		}
		if !ok {
			pm.dead = true
			continue
		}
		v := Eval(t, pm.m, pm.memo)
		if have && v != cand {
			return t
		}
		cand, have = v, true
	}
	if !have {
		r, m := e.sat()
		if r != Sat {
			return t
		}
		e.addModel(m)
		cand = Eval(t, m, map[int]uint64{})
	}
	k := e.ctx.BV(cand, t.W)
	ne := e.ctx.Ne(t, k)
	if e.knownUnsat(ne) {
		return k
	}
	r, m := e.sat(ne)
	switch r {
	case Unsat:
		e.storeUnsat(ne)
		return k
	case Sat:
		e.pc = append(e.pc, ne)
		e.addModel(m)
		e.pc = e.pc[:len(e.pc)-1]
	}
	return t
}

// enumerate lists every feasible value of t with the solver.
func (e *Exec) enumerate(t *Term) ([]int64, []*Term) {
	var vals []int64
	var excl []*Term
	for {
		r, m := e.sat(excl...)
		if r == Unsat {
			break
		}
		if r == Unknown {
			e.note("unknown:pick")
			panic(pathEnd{"unknown while concretising"})
		}
		v := Eval(t, m, map[int]uint64{})
		vals = append(vals, signExt(v, t.W))
		excl = append(excl, e.ctx.Ne(t, e.ctx.BV(v, t.W)))
		if len(vals) > e.cfg.MaxEnum {
			e.note("bound-exceeded:enum")
			panic(pathEnd{"bound exceeded: concretisation fan-out"})
		}
	}
	return vals, excl
}

// choose forks n ways without consulting the solver (free nondeterminism:
// map iteration order).
func (e *Exec) choose(n int) int {
	if n <= 1 {
		return 0
	}
	e.countDecision()
	s := e.src
	if s.pos < len(s.script) {
		v := s.script[s.pos]
		s.pos++
		return int(v)
	}
	for i := 1; i < n; i++ {
		s.alts = append(s.alts, e.altScript(int64(i)))
	}
	s.script = append(s.script[:s.pos], 0)
	s.pos++
	return 0
}

func (e *Exec) note(k string) {
	e.notes[k]++
}

type frameRec struct {
	fn  *ssa.Function
	ins ssa.Instruction
}

func (fr frameRec) render(g *Engine) string {
	if fr.ins == nil {
		return g.fnName(fr.fn)
	}
	return g.fnName(fr.fn) + "@" + g.pos(fr.ins.Pos())
}

func (e *Exec) where() string {
	if len(e.frames) == 0 {
		return "?"
	}
	return e.frames[len(e.frames)-1].render(e.eng)
}

func (e *Exec) stackTrace() []string {
	out := make([]string, len(e.frames))
	for i, fr := range e.frames {
		out[i] = fr.render(e.eng)
	}
	return out
}

// obligation: bad must be unsatisfiable under the path condition. If it is
// satisfiable a violation is recorded; execution continues under ¬bad.
func (e *Exec) obligation(bad *Term, kind, label string) {
	if bad.IsFalse() {
		return
	}
	if bad.IsTrue() {
		// definite: decide now (the path ends here)
		r, m := e.sat()
		if r == Sat {
			e.viol = append(e.viol, Violation{Kind: kind, Label: label, Site: e.where(), Model: m,
				Script: append([]int64{}, e.src.script[:e.src.pos]...), Stack: e.stackTrace()})
		} else if r == Unknown {
			e.note("unknown:obligation:" + kind)
		}
		panic(pathEnd{"definite " + kind + ": " + label})
	}
	if e.knownUnsat(bad) {
		e.addPC(e.ctx.Not(bad))
		return
	}
	if e.sumEp > 0 {
		// inside a summary the same obligation recurs on every sub-path under
		// the same outer path condition: first try to discharge it under the
		// outer path condition alone (then it holds on every sub-path and the
		// cache entry is reusable), else decide it eagerly on this sub-path.
		if e.sumBase >= 0 && e.sumBase <= len(e.pc) {
			outer := e.pc[:e.sumBase]
			if r0, _ := e.sol.CheckInc(outer, []*Term{bad}, false); r0 == Unsat {
				e.storeUnsatUnder(bad, outer)
				e.addPC(e.ctx.Not(bad))
				return
			}
		}
		r, m := e.sat(bad)
		switch r {
		case Unsat:
			e.storeUnsat(bad)
		case Sat:
			e.viol = append(e.viol, Violation{Kind: kind, Label: label, Site: e.where(), Model: m,
				Script: append([]int64{}, e.src.script[:e.src.pos]...), Stack: e.stackTrace()})
		default:
			e.note("unknown:obligation:" + kind)
		}
		e.addPC(e.ctx.Not(bad))
		return
	}
	// deferred: collected and discharged in one query at the end of the path
	conj := append(append([]*Term{}, e.pc...), bad)
	e.pending = append(e.pending, pendingObl{cond: e.ctx.And(conj...), kind: kind, label: label, site: e.where(),
		stack: e.stackTrace(), script: append([]int64{}, e.src.script[:e.src.pos]...)})
	e.addPC(e.ctx.Not(bad))
	if len(e.pending) >= 400 {
		e.flushObligations()
	}
}

// flushObligations discharges all pending obligations with one query (and, if
// that is sat, isolates every violated one with its own model).
func (e *Exec) flushObligations() {
	pend := e.pending
	e.pending = nil
	if len(pend) == 0 {
		return
	}
	var excl []*Term
	for round := 0; round < 8; round++ {
		var ds []*Term
		for _, p := range pend {
			ds = append(ds, p.cond)
		}
		q := append([]*Term{e.ctx.Or(ds...)}, excl...)
		r, m := e.sol.Check(q, true)
		if r == Unsat {
			return
		}
		if r == Unknown {
			for _, p := range pend {
				e.note("unknown:obligation:" + p.kind)
			}
			return
		}
		memo := map[int]uint64{}
		var rest []pendingObl
		hit := false
		for _, p := range pend {
			if Eval(p.cond, m, memo) == 1 {
				hit = true
				e.viol = append(e.viol, Violation{Kind: p.kind, Label: p.label, Site: p.site, Model: m, Script: p.script, Stack: p.stack})
				excl = append(excl, e.ctx.Not(p.cond))
			} else {
				rest = append(rest, p)
			}
		}
		if !hit {
			// model evaluation disagrees with the solver (UF terms): report conservatively
			e.note("unknown:obligation:model-eval")
			return
		}
		pend = rest
		if len(pend) == 0 {
			return
		}
	}
}

// oblCached: bad was already shown unsatisfiable under a subset of the current
// path condition (unsat is monotone in the path condition).
func (e *Exec) oblCached(bad *Term) bool {
	ents := e.oblCache[bad.ID]
	if len(ents) == 0 {
		return false
	}
	cur := make(map[int]bool, len(e.pc))
	for _, p := range e.pc {
		cur[p.ID] = true
	}
	for _, ent := range ents {
		ok := true
		for _, id := range ent {
			if !cur[id] {
				ok = false
				break
			}
		}
		if ok {
			return true
		}
	}
	return false
}

func (e *Exec) oblStore(bad *Term) {
	if len(e.oblCache[bad.ID]) >= 6 {
		return
	}
	ids := make([]int, len(e.pc))
	for i, p := range e.pc {
		ids[i] = p.ID
	}
	e.oblCache[bad.ID] = append(e.oblCache[bad.ID], ids)
}

func (e *Exec) goPanic(kind, label string) {
	e.obligation(e.ctx.True, kind, label)
}

func (e *Exec) assume(c *Term) {
	if c.IsTrue() {
		return
	}
	if c.IsFalse() {
		panic(pathEnd{"assume false"})
	}
	if e.lazy == 0 && e.src.pos >= len(e.src.script) {
		// feasibility may be known from a pooled model
		if t, _ := e.modelSays(c); t {
			e.addPC(c)
			return
		}
	}
	e.addPC(c)
	if e.lazy > 0 || e.src.pos < len(e.src.script) {
		// lazy mode, or replaying the prefix of a path whose parent already
		// passed this assumption under the same decisions
		return
	}
	r, m := e.sat()
	if r == Unsat {
		panic(pathEnd{"infeasible assumption"})
	}
	if r == Sat {
		e.addModel(m)
	}
}

// ------------------------------------------------------------------ frames

type frame struct {
	fn     *ssa.Function
	env    map[ssa.Value]Value
	prev   *ssa.BasicBlock
	visits map[int]int
	phiOv  map[*ssa.Phi]Value // phi values fixed by if-conversion for the next block
	defers []func()
}

// pureBlock reports whether blk (single predecessor, ends in Jump) contains only
// instructions that can be evaluated speculatively: no stores, calls, panics.
func (e *Exec) pureBlock(f *frame, blk *ssa.BasicBlock) bool {
	if len(blk.Preds) != 1 || len(blk.Instrs) > 12 {
		return false
	}
	for i, ins := range blk.Instrs {
		switch x := ins.(type) {
		case *ssa.Jump:
			if i != len(blk.Instrs)-1 {
				return false
			}
		case *ssa.BinOp:
			switch x.Op {
			case token.QUO, token.REM, token.SHL, token.SHR:
				return false
			}
			if _, ok := x.X.Type().Underlying().(*types.Basic); !ok {
				return false
			}
			if isString(x.X.Type()) && x.Op == token.ADD {
				return false
			}
		case *ssa.UnOp:
			if x.Op == token.MUL || x.Op == token.ARROW {
				return false
			}
		case *ssa.Convert:
			if typeWidth(x.Type()) < 0 || typeWidth(x.X.Type()) < 0 || isFloat(x.Type()) || isFloat(x.X.Type()) {
				return false
			}
		case *ssa.ChangeType, *ssa.DebugRef:
		default:
			return false
		}
	}
	_, ok := blk.Instrs[len(blk.Instrs)-1].(*ssa.Jump)
	return ok
}

// pureCondBlock: single predecessor, pure instructions, ends in If.
func (e *Exec) pureCondBlock(f *frame, blk *ssa.BasicBlock) bool {
	if len(blk.Preds) != 1 || len(blk.Instrs) > 12 || len(blk.Instrs) == 0 {
		return false
	}
	if _, ok := blk.Instrs[len(blk.Instrs)-1].(*ssa.If); !ok {
		return false
	}
	for _, ins := range blk.Instrs[:len(blk.Instrs)-1] {
		switch x := ins.(type) {
		case *ssa.BinOp:
			switch x.Op {
			case token.QUO, token.REM, token.SHL, token.SHR:
				return false
			}
			if _, ok := x.X.Type().Underlying().(*types.Basic); !ok {
				return false
			}
			if isString(x.X.Type()) && x.Op == token.ADD {
				return false
			}
		case *ssa.UnOp:
			if x.Op == token.MUL || x.Op == token.ARROW {
				return false
			}
		case *ssa.Convert:
			if typeWidth(x.Type()) < 0 || typeWidth(x.X.Type()) < 0 || isFloat(x.Type()) || isFloat(x.X.Type()) {
				return false
			}
		case *ssa.ChangeType, *ssa.DebugRef:
		default:
			return false
		}
	}
	return true
}

// shortCircuit fuses the two tests of "c1 && c2" / "c1 || c2" (block A tests c1,
// a pure block B tests c2, both share one exit) into a single decision, so a
// loop body with such a condition forks two ways per iteration instead of three.
func (e *Exec) shortCircuit(f *frame, A *ssa.BasicBlock, c1 *Term) (*ssa.BasicBlock, *ssa.BasicBlock, bool) {
	T, F := A.Succs[0], A.Succs[1]
	var B, C, D *ssa.BasicBlock
	isAnd := false
	switch {
	case e.pureCondBlock(f, T) && (T.Succs[1] == F) && T.Succs[0] != F:
		// A: if c1 goto B else C; B: if c2 goto D else C      (c1 && c2)
		B, C, D, isAnd = T, F, T.Succs[0], true
	case e.pureCondBlock(f, F) && (F.Succs[0] == T) && F.Succs[1] != T:
		// A: if c1 goto C else B; B: if c2 goto C else D      (c1 || c2)
		B, C, D, isAnd = F, T, F.Succs[1], false
	default:
		return nil, nil, false
	}
	if B == A || C == B || D == B {
		return nil, nil, false
	}
	// phis in C merge the edges from A and B; they must be scalars
	for _, ins := range C.Instrs {
		phi, ok := ins.(*ssa.Phi)
		if !ok {
			break
		}
		if typeWidth(phi.Type()) < 0 {
			return nil, nil, false
		}
	}
	// D must not have phis depending on which of several predecessors... it has B as a predecessor; fine.
	for _, ins := range B.Instrs[:len(B.Instrs)-1] {
		e.steps++
		e.step(f, ins)
	}
	c2 := e.get(f, B.Instrs[len(B.Instrs)-1].(*ssa.If).Cond).(*Term)
	var goD, viaB *Term
	if isAnd {
		goD = e.ctx.And(c1, c2)
		viaB = c1 // reaching C through B means c1 held and c2 failed
	} else {
		goD = e.ctx.And(e.ctx.Not(c1), e.ctx.Not(c2))
		viaB = e.ctx.Not(c1)
	}
	e.note("short-circuit fused")
	if e.branch(goD) {
		f.phiOv = nil
		return D, B, true
	}
	ov := map[*ssa.Phi]Value{}
	for _, ins := range C.Instrs {
		phi, ok := ins.(*ssa.Phi)
		if !ok {
			break
		}
		var vA, vB *Term
		for i, p := range C.Preds {
			if p == A {
				vA = e.get(f, phi.Edges[i]).(*Term)
			}
			if p == B {
				vB = e.get(f, phi.Edges[i]).(*Term)
			}
		}
		if vA == nil || vB == nil {
			panic(unsupported{"short-circuit phi without both edges"})
		}
		ov[phi] = e.ctx.Ite(viaB, vB, vA)
	}
	f.phiOv = ov
	if len(ov) == 0 {
		f.phiOv = nil
		return C, A, true
	}
	return C, A, true
}

// ifConvert turns a pure triangle/diamond into ite-terms. It returns the join
// block (with its phis pre-computed) or nil if the shape does not apply.
func (e *Exec) ifConvert(f *frame, b *ssa.BasicBlock, c *Term) *ssa.BasicBlock {
	T, F := b.Succs[0], b.Succs[1]
	var join *ssa.BasicBlock
	var arms []*ssa.BasicBlock // speculated blocks
	switch {
	case e.pureBlock(f, T) && T.Succs[0] == F:
		join, arms = F, []*ssa.BasicBlock{T}
	case e.pureBlock(f, F) && F.Succs[0] == T:
		join, arms = T, []*ssa.BasicBlock{F}
	case e.pureBlock(f, T) && e.pureBlock(f, F) && T.Succs[0] == F.Succs[0]:
		join, arms = T.Succs[0], []*ssa.BasicBlock{T, F}
	default:
		return nil
	}
	// every phi in the join must merge scalars
	for _, ins := range join.Instrs {
		phi, ok := ins.(*ssa.Phi)
		if !ok {
			break
		}
		if typeWidth(phi.Type()) < 0 {
			return nil
		}
	}
	for _, arm := range arms {
		for _, ins := range arm.Instrs {
			if _, ok := ins.(*ssa.Jump); ok {
				break
			}
			e.steps++
			e.step(f, ins)
		}
	}
	// value flowing into the join along "cond true" and "cond false"
	predOf := func(taken bool) *ssa.BasicBlock {
		succ := T
		if !taken {
			succ = F
		}
		if succ == join {
			return b
		}
		return succ
	}
	pt, pf := predOf(true), predOf(false)
	ov := map[*ssa.Phi]Value{}
	for _, ins := range join.Instrs {
		phi, ok := ins.(*ssa.Phi)
		if !ok {
			break
		}
		var vt, vf *Term
		for i, p := range join.Preds {
			if p == pt {
				vt = e.get(f, phi.Edges[i]).(*Term)
			}
			if p == pf {
				vf = e.get(f, phi.Edges[i]).(*Term)
			}
		}
		if vt == nil || vf == nil {
			return nil
		}
		ov[phi] = e.ctx.Ite(c, vt, vf)
	}
	f.phiOv = ov
	e.note("if-converted")
	return join
}

func (e *Exec) get(f *frame, v ssa.Value) Value {
	switch x := v.(type) {
	case *ssa.Const:
		return e.constVal(x)
	case *ssa.Global:
		return e.globalPtr(x)
	case *ssa.Function:
		return &FuncV{Fn: x}
	case *ssa.Builtin:
		return &FuncV{Bltn: x}
	}
	r, ok := f.env[v]
	if !ok {
		panic(unsupported{fmt.Sprintf("unbound SSA value %s in %s", v.Name(), f.fn)})
	}
	return r
}

func (e *Exec) constVal(c *ssa.Const) Value {
	t := c.Type()
	if c.Value == nil {
		return e.zero(t)
	}
	switch u := t.Underlying().(type) {
	case *types.Basic:
		switch {
		case u.Info()&types.IsBoolean != 0:
			return e.ctx.Bool(constantBool(c))
		case u.Info()&types.IsString != 0:
			return e.constString(constantString(c))
		case u.Info()&types.IsInteger != 0:
			w := typeWidth(t)
			if isSigned(t) {
				return e.ctx.BV(uint64(c.Int64()), w)
			}
			return e.ctx.BV(c.Uint64(), w)
		case u.Info()&types.IsFloat != 0:
			return e.ctx.BV(floatBits(c, typeWidth(t)), typeWidth(t))
		}
	}
	panic(unsupported{fmt.Sprintf("constant %s of type %s", c, t)})
}

func (e *Exec) globalPtr(g *ssa.Global) *Pointer {
	if p, ok := e.globs[g]; ok {
		return p
	}
	elem := g.Type().(*types.Pointer).Elem()
	var v Value
	if g.Pkg != nil && !e.eng.isRepoPkg(g.Pkg.Pkg.Path()) {
		// external global: only error sentinels are modelled
		if types.Identical(elem, types.Universe.Lookup("error").Type()) {
			v = e.errorVal(g.Pkg.Pkg.Path() + "." + g.Name())
		} else if isString(elem) {
			// external string variables (terminal colour codes of the default
			// palettes) are placeholders: their package init is not run
			v = e.constString("\x1b[" + g.Name() + "m")
			e.note("placeholder external string global " + g.Pkg.Pkg.Path() + "." + g.Name())
		} else {
			panic(unsupported{"external global " + g.String()})
		}
	} else {
		v = e.zero(elem)
	}
	obj := e.newObj("global", g.String())
	obj.Epoch = 0
	slot := new(Value)
	*slot = v
	p := &Pointer{Slot: slot, Obj: obj}
	e.globs[g] = p
	return p
}

func (e *Exec) errorVal(tag string) *IfaceV {
	if v, ok := e.extErr[tag]; ok {
		return v
	}
	e.errSeq++
	v := &IfaceV{Typ: e.eng.errType, Val: &ErrorV{Tag: tag, ID: e.errSeq}}
	e.extErr[tag] = v
	return v
}

func (e *Exec) newError(tag string) *IfaceV {
	e.errSeq++
	return &IfaceV{Typ: e.eng.errType, Val: &ErrorV{Tag: tag, ID: e.errSeq}}
}

// ------------------------------------------------------------------ calls

func (e *Exec) callFunc(fn *ssa.Function, args []Value, env []Value) Value {
	name := e.eng.fnName(fn)
	if h, ok := intrinsics[name]; ok {
		return h(e, fn, args)
	}
	if fn.Pkg != nil && fn.Pkg.Pkg.Name() != "" {
		if h, ok := harnessRT[fn.Name()]; ok && e.eng.isHarnessRT(fn) {
			return h(e, fn, args)
		}
	}
	if strings.HasSuffix(name, ".init") && fn.Signature.Recv() == nil && fn.Pkg != nil && !e.eng.isRepoPkg(fn.Pkg.Pkg.Path()) {
		return nil
	}
	if e.cfg.Contracts[name] {
		return e.contractCall(fn, args)
	}
	if len(fn.Blocks) == 0 {
		panic(unsupported{"no body for " + name})
	}
	if e.cfg.Summarize[name] && !e.impure[fn] {
		if r, ok := e.summarize(fn, args, env); ok {
			return r
		}
	}
	return e.run(fn, args, env)
}

func (e *Exec) run(fn *ssa.Function, args []Value, env []Value) Value {
	if len(e.frames) > 200 {
		e.note("bound-exceeded:depth")
		panic(pathEnd{"bound exceeded: call depth"})
	}
	f := &frame{fn: fn, env: map[ssa.Value]Value{}, visits: map[int]int{}}
	for i, p := range fn.Params {
		f.env[p] = args[i]
	}
	for i, fv := range fn.FreeVars {
		f.env[fv] = env[i]
	}
	e.frames = append(e.frames, frameRec{fn: fn})
	defer func() { e.frames = e.frames[:len(e.frames)-1] }()
	b := fn.Blocks[0]
	for {
		var next *ssa.BasicBlock
		converted := false
		scPrev := false
		f.visits[b.Index]++
		for _, ins := range b.Instrs {
			e.steps++
			if e.steps > e.cfg.MaxSteps {
				e.note("bound-exceeded:steps")
				panic(pathEnd{"bound exceeded: steps"})
			}
			switch x := ins.(type) {
			case *ssa.Return:
				switch len(x.Results) {
				case 0:
					return nil
				case 1:
					return e.get(f, x.Results[0])
				}
				tv := make(TupleV, len(x.Results))
				for i, r := range x.Results {
					tv[i] = e.get(f, r)
				}
				return tv
			case *ssa.Jump:
				next = b.Succs[0]
			case *ssa.If:
				c := e.get(f, x.Cond).(*Term)
				// inside loops feasibility is checked even in lazy mode, so
				// that symbolic trip counts terminate
				e.force = e.lazy > 0 && f.visits[b.Index] > 64
				if !c.IsConst() {
					if nb, pv, ok := e.shortCircuit(f, b, c); ok {
						next = nb
						f.prev = pv
						scPrev = true
						converted = f.phiOv != nil
						break
					}
					if j := e.ifConvert(f, b, c); j != nil {
						next = j
						converted = true
						break
					}
				}
				if e.branch(c) {
					next = b.Succs[0]
				} else {
					next = b.Succs[1]
				}
			case *ssa.Panic:
				v := e.get(f, x.X)
				e.frames[len(e.frames)-1].ins = x
				e.goPanic("panic", "explicit panic: "+e.describe(v))
			default:
				e.frames[len(e.frames)-1].ins = ins
				e.step(f, ins)
			}
		}
		if next == nil {
			panic(unsupported{"block without terminator in " + fn.String()})
		}
		if !converted {
			f.phiOv = nil
		}
		if !scPrev {
			f.prev = b
		}
		b = next
	}
}

func (e *Exec) describe(v Value) string {
	switch x := v.(type) {
	case *IfaceV:
		if x == nil {
			return "nil"
		}
		return e.describe(x.Val)
	case *StringV:
		if s, ok := e.concreteString(x); ok {
			return s
		}
		return "<symbolic string>"
	case *ErrorV:
		return "error(" + x.Tag + ")"
	case *Term:
		if x.IsConst() {
			return fmt.Sprint(x.SVal())
		}
		return "<term>"
	}
	return fmt.Sprintf("%T", v)
}

// summarize explores all paths of a pure callee and merges its scalar results
// into ite-terms. ok=false means the callee is not summarisable (it wrote to
// older heap or returned non-scalars); the caller then runs it inline.
func (e *Exec) summarize(fn *ssa.Function, args []Value, env []Value) (res Value, ok bool) {
	savedSrc, savedPC, savedSum, savedViol := e.src, len(e.pc), e.sumEp, len(e.viol)
	outermost := e.sumEp == 0
	if outermost {
		e.sumBase = savedPC
	}
	savedFrames := len(e.frames)
	savedDec := e.decisions
	savedPend := len(e.pending)
	e.epoch++
	e.sumEp = e.epoch
	e.lazy++
	type outcome struct {
		cond *Term
		val  Value
	}
	var outs []outcome
	work := [][]int64{{}}
	restore := func() {
		e.src, e.sumEp = savedSrc, savedSum
		if outermost {
			e.sumBase = -1
		}
		e.pc = e.pc[:savedPC]
		e.frames = e.frames[:savedFrames]
		e.lazy--
		for _, pm := range e.models {
			if pm.upTo > savedPC {
				pm.upTo = savedPC
			}
		}
	}
	failed := false
	for len(work) > 0 && !failed {
		sc := work[len(work)-1]
		work = work[:len(work)-1]
		e.src = &decisionSrc{script: sc}
		e.pc = e.pc[:savedPC]
		e.decisions = savedDec
		func() {
			defer func() {
				if r := recover(); r != nil {
					e.frames = e.frames[:savedFrames]
					switch x := r.(type) {
					case pathEnd:
						// path died (infeasible / violation recorded): no outcome.
						// A bound hit inside the callee ends the whole outer path.
						if strings.HasPrefix(x.reason, "bound exceeded") || strings.HasPrefix(x.reason, "unknown") {
							restore()
							e.decisions = savedDec
							panic(r)
						}
					case notPure:
						failed = true
					default:
						restore()
						panic(r)
					}
				}
			}()
			v := e.run(fn, args, env)
			outs = append(outs, outcome{e.ctx.And(e.pc[savedPC:]...), v})
		}()
		work = append(work, e.src.alts...)
		if len(outs) > 20000 {
			failed = true
		}
	}
	restore()
	e.decisions = savedDec
	if failed {
		e.impure[fn] = true
		e.viol = e.viol[:savedViol]
		if len(e.pending) > savedPend {
			e.pending = e.pending[:savedPend]
		}
		return nil, false
	}
	if len(outs) == 0 {
		panic(pathEnd{"callee has no surviving path"})
	}
	// merge
	merged, okm := e.mergeOutcomes(len(outs), func(i int) (*Term, Value) { return outs[i].cond, outs[i].val })
	if !okm {
		e.impure[fn] = true
		e.viol = e.viol[:savedViol]
		if len(e.pending) > savedPend {
			e.pending = e.pending[:savedPend]
		}
		return nil, false
	}
	e.note("summarised:" + fn.Name())
	return merged, true
}

func (e *Exec) mergeOutcomes(n int, get func(i int) (*Term, Value)) (Value, bool) {
	_, v0 := get(n - 1)
	switch x := v0.(type) {
	case nil:
		return nil, true
	case *SliceV:
		// slices over one backing array merge into a symbolic window; nil
		// results form a class of their own, selected by one branch.
		var nilConds []*Term
		var idx []int
		var arr *ArrayObj
		for i := 0; i < n; i++ {
			c, v := get(i)
			sv, ok := v.(*SliceV)
			if !ok {
				return nil, false
			}
			if isNil(sv) {
				nilConds = append(nilConds, c)
				continue
			}
			if arr == nil {
				arr = sv.Arr
			} else if arr != sv.Arr {
				return nil, false
			}
			idx = append(idx, i)
		}
		if len(idx) == 0 {
			return x, true
		}
		if len(nilConds) > 0 && e.branch(e.ctx.Or(nilConds...)) {
			return &SliceV{Off: e.ctx.Int(0), Len: e.ctx.Int(0), Cap: e.ctx.Int(0)}, true
		}
		_, lv := get(idx[len(idx)-1])
		last := lv.(*SliceV)
		off, ln, cp := last.Off, last.Len, last.Cap
		for k := len(idx) - 2; k >= 0; k-- {
			c, v := get(idx[k])
			sv := v.(*SliceV)
			off, ln, cp = e.ctx.Ite(c, sv.Off, off), e.ctx.Ite(c, sv.Len, ln), e.ctx.Ite(c, sv.Cap, cp)
		}
		return &SliceV{Arr: arr, Off: off, Len: ln, Cap: cp}, true
	case *Term:
		acc := x
		for i := n - 2; i >= 0; i-- {
			c, v := get(i)
			t, ok := v.(*Term)
			if !ok || t.W != acc.W {
				return nil, false
			}
			acc = e.ctx.Ite(c, t, acc)
		}
		return acc, true
	case TupleV:
		out := make(TupleV, len(x))
		for k := range x {
			k := k
			m, ok := e.mergeOutcomes(n, func(i int) (*Term, Value) {
				c, v := get(i)
				tv, _ := v.(TupleV)
				if len(tv) != len(x) {
					return c, unsupported{"tuple"}
				}
				return c, tv[k]
			})
			if !ok {
				return nil, false
			}
			out[k] = m
		}
		return out, true
	}
	return nil, false
}

// contractCall replaces a callee by "no panic, writes only through its pointer
// arguments, any result": results are fresh symbols, pointed-to structs are
// havocked. The contract itself is discharged by the callee's unit harness.
func (e *Exec) contractCall(fn *ssa.Function, args []Value) Value {
	e.note("contract:" + fn.Name())
	for i, a := range args {
		if p, ok := a.(*Pointer); ok && p != nil {
			pt := fn.Params[i].Type().Underlying().(*types.Pointer).Elem()
			e.checkWrite(p.Obj)
			assign(p.Slot, e.havoc(pt, fn.Name()))
		}
	}
	res := fn.Signature.Results()
	switch res.Len() {
	case 0:
		return nil
	case 1:
		return e.havoc(res.At(0).Type(), fn.Name()+".ret")
	}
	tv := make(TupleV, res.Len())
	for i := range tv {
		tv[i] = e.havoc(res.At(i).Type(), fmt.Sprintf("%s.ret%d", fn.Name(), i))
	}
	return tv
}

// havoc builds an arbitrary value of type t (strings/slices get fresh opaque
// short contents; errors are nil-or-fresh decided by a fresh boolean).
func (e *Exec) havoc(t types.Type, name string) Value {
	switch u := t.Underlying().(type) {
	case *types.Basic:
		if u.Info()&types.IsString != 0 {
			return &StringV{Tok: e.fresh(name+".str", 64), Off: e.ctx.Int(0), Len: e.ctx.Int(0)}
		}
		w := typeWidth(t)
		if w >= 0 {
			return e.fresh(name, w)
		}
	case *types.Struct:
		s := &StructV{Fields: make([]Value, u.NumFields())}
		for i := range s.Fields {
			s.Fields[i] = e.havoc(u.Field(i).Type(), name+"."+u.Field(i).Name())
		}
		return s
	case *types.Interface:
		if types.Identical(t, e.eng.errType) {
			if e.branch(e.fresh(name+".iserr", 0)) {
				return e.newError("contract:" + name)
			}
			return (*IfaceV)(nil)
		}
	case *types.Slice:
		// arbitrary slice: modelled as nil or a short fresh slice is not needed
		// by the callers that use contracts (results are stored, not read).
		return e.zero(t)
	}
	return e.zero(t)
}

func (e *Exec) checkWrite(o *Object) {
	if o == nil {
		return
	}
	if e.sumEp > 0 && o.Epoch < e.sumEp {
		panic(notPure{o.Kind + " " + o.Site})
	}
	if e.barrier > 0 && o.Epoch < e.barrier && o.Kind != "global" {
		e.viol = append(e.viol, Violation{Kind: "barrier", Label: "store to pre-existing object " + o.Kind + " " + o.Site,
			Site: e.where(), Script: append([]int64{}, e.src.script[:e.src.pos]...), Stack: e.stackTrace()})
		if r, m := e.sat(); r == Sat {
			e.viol[len(e.viol)-1].Model = m
		}
	}
	if o.Kind == "global" && e.initDone {
		e.globalWr[o.Site] = true
		if e.barrier > 0 {
			// state shared by every call: no native twin can show it without a
			// scheduler, so the run is inconclusive rather than a violation
			e.note("unconfirmed:store to package-level variable " + o.Site + " under the write barrier")
		}
	}
}
