package main

import (
	"fmt"
	"go/types"

	"golang.org/x/tools/go/ssa"
)

func (e *Exec) call(f *frame, cc *ssa.CallCommon, site ssa.Instruction) Value {
	args := make([]Value, 0, len(cc.Args)+1)
	if cc.IsInvoke() {
		recv := e.get(f, cc.Value)
		iv, _ := recv.(*IfaceV)
		if iv == nil {
			e.goPanic("nil", "method call on nil interface")
		}
		for _, a := range cc.Args {
			args = append(args, e.get(f, a))
		}
		return e.invoke(iv, cc.Method, args)
	}
	for _, a := range cc.Args {
		args = append(args, e.get(f, a))
	}
	switch fn := cc.Value.(type) {
	case *ssa.Builtin:
		return e.builtin(fn, args, cc, site)
	case *ssa.Function:
		return e.callFunc(fn, args, nil)
	case *ssa.MakeClosure:
		fv := e.get(f, fn).(*FuncV)
		return e.callFunc(fv.Fn, args, fv.Env)
	}
	fv, _ := e.get(f, cc.Value).(*FuncV)
	if fv == nil {
		e.goPanic("nil", "call of nil function")
	}
	if fv.Bltn != nil {
		return e.builtin(fv.Bltn, args, cc, site)
	}
	return e.callFunc(fv.Fn, args, fv.Env)
}

func (e *Exec) invoke(iv *IfaceV, m *types.Func, args []Value) Value {
	if ev, ok := iv.Val.(*ErrorV); ok && m.Name() == "Error" {
		return e.constString("error(" + ev.Tag + ")")
	}
	ms := e.eng.prog.MethodSets.MethodSet(iv.Typ)
	sel := ms.Lookup(m.Pkg(), m.Name())
	if sel == nil {
		panic(unsupported{fmt.Sprintf("method %s not found on %s", m.Name(), iv.Typ)})
	}
	fn := e.eng.prog.MethodValue(sel)
	if fn == nil {
		panic(unsupported{"no method value for " + m.Name()})
	}
	return e.callFunc(fn, append([]Value{iv.Val}, args...), nil)
}

func (e *Exec) builtin(b *ssa.Builtin, args []Value, cc *ssa.CallCommon, site ssa.Instruction) Value {
	c := e.ctx
	switch b.Name() {
	case "len":
		switch x := args[0].(type) {
		case *StringV:
			if x.Tok != nil {
				return c.UF("strlen", 64, x.Tok)
			}
			return x.Len
		case *SliceV:
			if isNil(x) {
				return c.Int(0)
			}
			return x.Len
		case *MapV:
			if x == nil {
				return c.Int(0)
			}
			return c.Int(int64(len(x.Entries)))
		case *ArrayV:
			return c.Int(int64(len(x.Elems)))
		case *Pointer:
			return c.Int(int64(len((*x.Slot).(*ArrayV).Elems)))
		}
	case "cap":
		switch x := args[0].(type) {
		case *SliceV:
			if isNil(x) {
				return c.Int(0)
			}
			return x.Cap
		case *ArrayV:
			return c.Int(int64(len(x.Elems)))
		case *Pointer:
			return c.Int(int64(len((*x.Slot).(*ArrayV).Elems)))
		}
	case "append":
		return e.appendOp(args[0].(*SliceV), args[1], cc.Args[0].Type())
	case "copy":
		return e.copyOp(args[0].(*SliceV), args[1])
	case "delete":
		e.mapDelete(args[0].(*MapV), args[1])
		return nil
	case "print", "println":
		return nil
	case "min", "max":
		acc := args[0].(*Term)
		signed := isSigned(cc.Args[0].Type())
		for _, a := range args[1:] {
			t := a.(*Term)
			var lt *Term
			if signed {
				lt = c.Slt(t, acc)
			} else {
				lt = c.Ult(t, acc)
			}
			if b.Name() == "max" {
				lt = c.Not(c.Or(lt, c.Eq(t, acc)))
			}
			acc = c.Ite(lt, t, acc)
		}
		return acc
	}
	panic(unsupported{"builtin " + b.Name()})
}

// appendOp implements append(s, t...) with concrete window sizes (symbolic
// lengths are concretised by forking).
func (e *Exec) appendOp(s *SliceV, tv Value, st types.Type) Value {
	c := e.ctx
	var add []Value
	switch t := tv.(type) {
	case *SliceV:
		off, n := e.sliceWindow(t)
		for i := 0; i < n; i++ {
			add = append(add, copyVal(t.Arr.Elems[off+i]))
		}
	case *StringV:
		for _, b := range e.strBytes(t) {
			add = append(add, b)
		}
	default:
		panic(unsupported{fmt.Sprintf("append of %T", tv)})
	}
	if len(add) == 0 {
		return s
	}
	et := st.Underlying().(*types.Slice).Elem()
	if isNil(s) {
		ns := e.newSlice(et, len(add), len(add), "append")
		for i, v := range add {
			assign(&ns.Arr.Elems[i], v)
		}
		return ns
	}
	off, n := e.sliceWindow(s)
	capn := int(e.pick(s.Cap))
	if n+len(add) <= capn {
		e.checkWrite(s.Arr.Obj)
		for i, v := range add {
			assign(&s.Arr.Elems[off+n+i], v)
		}
		return &SliceV{Arr: s.Arr, Off: s.Off, Len: c.Int(int64(n + len(add))), Cap: s.Cap}
	}
	newCap := 2 * capn
	if newCap < n+len(add) {
		newCap = n + len(add)
	}
	ns := e.newSlice(et, n+len(add), newCap, "append")
	for i := 0; i < n; i++ {
		assign(&ns.Arr.Elems[i], copyVal(s.Arr.Elems[off+i]))
	}
	for i, v := range add {
		assign(&ns.Arr.Elems[n+i], v)
	}
	return ns
}

// copyOp implements copy(dst, src). Byte copies with symbolic offsets/lengths
// are expressed with ite over the destination array; otherwise windows are
// concretised.
func (e *Exec) copyOp(dst *SliceV, srcv Value) Value {
	c := e.ctx
	var src []Value
	var srcSym *SliceV
	switch t := srcv.(type) {
	case *SliceV:
		if isNil(t) || isNil(dst) {
			return c.Int(0)
		}
		if !(t.Off.IsConst() && t.Len.IsConst() && dst.Off.IsConst() && dst.Len.IsConst()) && e.isByteArr(t.Arr) && e.isByteArr(dst.Arr) {
			srcSym = t
		} else {
			off, n := e.sliceWindow(t)
			for i := 0; i < n; i++ {
				src = append(src, copyVal(t.Arr.Elems[off+i]))
			}
		}
	case *StringV:
		for _, b := range e.strBytes(t) {
			src = append(src, b)
		}
	}
	if isNil(dst) {
		return c.Int(0)
	}
	e.checkWrite(dst.Arr.Obj)
	if srcSym != nil {
		// n = min(len(dst), len(src)); new[k] = (doff <= k < doff+n) ? srcOld[soff + k - doff] : old[k]
		n := c.Ite(c.Slt(dst.Len, srcSym.Len), dst.Len, srcSym.Len)
		old := make([]*Term, len(srcSym.Arr.Elems))
		for i, v := range srcSym.Arr.Elems {
			old[i] = v.(*Term)
		}
		de := dst.Arr.Elems
		newv := make([]*Term, len(de))
		for k := range de {
			kk := c.Int(int64(k))
			in := c.And(c.Sle(dst.Off, kk), c.Slt(kk, c.Add(dst.Off, n)))
			if in.IsFalse() {
				newv[k] = de[k].(*Term)
				continue
			}
			sv := e.byteAt(old, c.Add(srcSym.Off, c.Sub(kk, dst.Off)))
			newv[k] = c.Ite(in, sv, de[k].(*Term))
		}
		for k := range de {
			de[k] = newv[k]
		}
		return n
	}
	off, n := e.sliceWindow(dst)
	if len(src) < n {
		n = len(src)
	}
	for i := 0; i < n; i++ {
		assign(&dst.Arr.Elems[off+i], src[i])
	}
	return c.Int(int64(n))
}

func (e *Exec) isByteArr(a *ArrayObj) bool {
	if a == nil || len(a.Elems) == 0 {
		return false
	}
	t, ok := a.Elems[0].(*Term)
	return ok && t.W == 8
}
