package main

import (
	"encoding/json"
	"flag"
	"fmt"
	"os"
	"path/filepath"
	"runtime"
	"runtime/debug"
	"runtime/pprof"
	"sort"
	"strconv"
	"strings"
	"time"
)

func main() {
	debug.SetGCPercent(200)
	if len(os.Args) < 2 {
		fmt.Fprintln(os.Stderr, "usage: gosmt check <property> [flags] | gosmt list | gosmt replay <file>")
		os.Exit(2)
	}
	switch os.Args[1] {
	case "check":
		os.Exit(cmdCheck(os.Args[2:]))
	case "list":
		os.Exit(cmdList(os.Args[2:]))
	case "selftest":
		os.Exit(cmdSelftest(os.Args[2:]))
	default:
		fmt.Fprintln(os.Stderr, "unknown command", os.Args[1])
		os.Exit(2)
	}
}

func envInt(name string, def int) int {
	if v := os.Getenv(name); v != "" {
		if n, err := strconv.Atoi(v); err == nil {
			return n
		}
	}
	return def
}

func cmdList(args []string) int {
	fs := flag.NewFlagSet("list", flag.ExitOnError)
	repo := fs.String("repo", "/repo", "repository root")
	verif := fs.String("verif", "/verif", "verification root")
	tier := fs.String("tier", "quick", "tier")
	fs.Parse(args)
	g, err := Load(*repo, *verif, []string{"stack", "internal"}, 0)
	if err != nil {
		fmt.Fprintln(os.Stderr, err)
		return 2
	}
	for _, h := range g.Harnesses(*tier) {
		fmt.Printf("%s %s instances=%d\n", h.Prop, h.Name, len(instances(h)))
	}
	return 0
}

func cmdCheck(args []string) int {
	fs := flag.NewFlagSet("check", flag.ExitOnError)
	repo := fs.String("repo", "/repo", "repository root")
	verif := fs.String("verif", "/verif", "verification root")
	tier := fs.String("tier", envOr("VERIF_TIER", "quick"), "quick|thorough")
	seed := fs.Int("seed", envInt("VERIF_SEED", 0), "seed")
	workers := fs.Int("workers", runtime.NumCPU(), "workers")
	solver := fs.String("solver", "z3", "z3|z3-new|cvc5")
	only := fs.String("only", "", "run only harnesses whose name contains this")
	verbose := fs.Bool("v", false, "verbose")
	noReplay := fs.Bool("no-replay", false, "skip native replay")
	timeout := fs.Int("timeout", 30000, "solver timeout per query (ms)")
	maxPaths := fs.Int("max-paths", 0, "stop a harness after this many paths (0 = no limit)")
	bufSize := fs.Int("bufsize", 0, "reduce reader.go's buffer to this many bytes in the overlay copy (0 = real size)")
	extraBuf := fs.String("extra-bufsizes", "", "comma-separated further buffer sizes: harnesses marked //verif:bufsensitive are re-run on each")
	cpuprof := fs.String("cpuprofile", "", "write cpu profile")
	instFilter := fs.String("inst", "", "only instances whose description contains this")
	noEvidence := fs.Bool("no-evidence", false, "do not write the evidence file")
	var props []string
	for len(args) > 0 && !strings.HasPrefix(args[0], "-") {
		props = append(props, args[0])
		args = args[1:]
	}
	fs.Parse(args)
	if len(props) == 0 {
		fmt.Fprintln(os.Stderr, "check: property id required")
		return 2
	}
	t0 := time.Now()
	extraRC := 0
	for _, bs := range strings.Split(*extraBuf, ",") {
		n, err := strconv.Atoi(strings.TrimSpace(bs))
		if err != nil || n < 0 || strings.TrimSpace(bs) == "" {
			continue
		}
		// 0 = the real buffer size: only harnesses marked //verif:realsize run there
		ge, err := Load(*repo, *verif, []string{"stack", "internal"}, n)
		if err != nil {
			fmt.Fprintln(os.Stderr, "load failed:", err)
			return 2
		}
		ge.loadKnown()
		for _, prop := range props {
			var hs []*Harness
			for _, h := range ge.Harnesses(*tier) {
				if h.Prop != prop || (*only != "" && !strings.Contains(h.Name, *only)) {
					continue
				}
				if (n == 0 && h.RealSize) || (n > 0 && h.BufSensitive) {
					hs = append(hs, h)
				}
			}
			if len(hs) == 0 {
				continue
			}
			if n == 0 {
				fmt.Printf("[%s] reader at its real buffer size\n", prop)
			} else {
				fmt.Printf("[%s] additional reader buffer size %d\n", prop, n)
			}
			r := ge.checkProperty(prop, hs, *tier, *seed, RunOpts{Workers: *workers, Solver: *solver, TimeoutMs: *timeout, MaxViol: 8, Verbose: *verbose, MaxPaths: *maxPaths, InstFilter: *instFilter}, !*noReplay, time.Now(), false)
			extraRuns = append(extraRuns, map[string]interface{}{"property": prop, "buffer_bytes": map[bool]int{true: 16384, false: n}[n == 0], "exit": r, "paths": ge.lastPaths, "queries": ge.lastQueries, "harnesses": ge.lastHarnesses})
			if r > extraRC {
				extraRC = r
			}
		}
	}
	g, err := Load(*repo, *verif, []string{"stack", "internal"}, *bufSize)
	if err != nil {
		fmt.Fprintln(os.Stderr, "load failed:", err)
		return 2
	}
	if mp := os.Getenv("GOSMT_MEMPROF"); mp != "" {
		go func() {
			time.Sleep(45 * time.Second)
			f, _ := os.Create(mp)
			pprof.WriteHeapProfile(f)
			f.Close()
		}()
	}
	if *cpuprof != "" {
		f, _ := os.Create(*cpuprof)
		pprof.StartCPUProfile(f)
		defer pprof.StopCPUProfile()
		if d := os.Getenv("GOSMT_PROFSEC"); d != "" {
			n, _ := strconv.Atoi(d)
			go func() { time.Sleep(time.Duration(n) * time.Second); pprof.StopCPUProfile(); os.Exit(3) }()
		}
	}
	g.loadKnown()
	all := g.Harnesses(*tier)
	rc := 0
	for _, prop := range props {
		var hs []*Harness
		for _, h := range all {
			if h.RealSize && g.BufSize != 0 {
				continue // runs in the real-size pass only
			}
			if h.Prop == prop && (*only == "" || strings.Contains(h.Name, *only)) {
				hs = append(hs, h)
			}
		}
		if len(hs) == 0 {
			fmt.Fprintf(os.Stderr, "no harness for %s\n", prop)
			return 2
		}
		r := g.checkProperty(prop, hs, *tier, *seed, RunOpts{Workers: *workers, Solver: *solver, TimeoutMs: *timeout, MaxViol: 8, Verbose: *verbose, MaxPaths: *maxPaths, InstFilter: *instFilter}, !*noReplay, t0, !*noEvidence)
		if r > rc {
			rc = r
		}
	}
	if extraRC > rc {
		rc = extraRC
	}
	return rc
}

var extraRuns []map[string]interface{}

func envOr(k, d string) string {
	if v := os.Getenv(k); v != "" {
		return v
	}
	return d
}

type harnessSummary struct {
	Name       string            `json:"name"`
	Doc        string            `json:"doc,omitempty"`
	Instances  int               `json:"instances"`
	Paths      int               `json:"paths"`
	Steps      int               `json:"ssa_instructions_interpreted"`
	Queries    int               `json:"solver_queries"`
	Sat        int               `json:"sat"`
	Unsat      int               `json:"unsat"`
	Unknown    int               `json:"unknown"`
	SolverS    float64           `json:"solver_s"`
	WallS      float64           `json:"wall_s"`
	Params     map[string]string `json:"bounds"`
	Asserts    map[string]int    `json:"assertions_discharged"`
	Notes      map[string]int    `json:"notes,omitempty"`
	Reached    []string          `json:"reach_witnesses"`
	Ends       map[string]int    `json:"path_ends"`
	Summarized []string          `json:"summarised_callees,omitempty"`
	Contracts  []string          `json:"contracts,omitempty"`
	GlobalWr   []string          `json:"global_writes,omitempty"`
}

func (g *Engine) checkProperty(prop string, hs []*Harness, tier string, seed int, opts RunOpts, replay bool, t0 time.Time, writeEv bool) int {
	var sums []harnessSummary
	var samples []interface{}
	var allViol []FoundViolation
	inconclusive := []string{}
	totalPaths, totalQueries, totalSat, totalUnsat, totalUnk := 0, 0, 0, 0, 0
	var solverS float64
	assertsTotal := 0
	validated := 0
	knownAnnounced := []string{}
	var wits []witness
	for _, h := range hs {
		hr := g.RunHarness(h, opts)
		hs := harnessSummary{Name: h.Name, Doc: strings.TrimSpace(h.Doc), Instances: hr.Instances, Paths: hr.Paths, Steps: hr.Steps,
			Queries: hr.Queries, Sat: hr.Sat, Unsat: hr.Unsat, Unknown: hr.Unknown, SolverS: hr.SolverTime.Seconds(), WallS: hr.Wall.Seconds(),
			Params: map[string]string{}, Asserts: map[string]int{}, Notes: map[string]int{}, Ends: hr.Ends,
			Summarized: h.Summarize, Contracts: h.Contracts}
		for _, p := range h.Params {
			hs.Params[p.Name] = fmt.Sprint(p.Vals)
		}
		for k, n := range hr.Notes {
			if strings.HasPrefix(k, "assert:") {
				hs.Asserts[k[7:]] = n
				assertsTotal += n
			} else {
				hs.Notes[k] = n
			}
			if strings.HasPrefix(k, "unknown:") || strings.HasPrefix(k, "bound-exceeded:") || strings.HasPrefix(k, "unconfirmed:") {
				inconclusive = append(inconclusive, fmt.Sprintf("%s: %s x%d", h.Name, k, n))
			}
		}
		for k := range hr.GlobalWrites {
			hs.GlobalWr = append(hs.GlobalWr, k)
		}
		for k, n := range hr.Unsupported {
			inconclusive = append(inconclusive, fmt.Sprintf("%s: unsupported %s x%d", h.Name, k, n))
		}
		for k, n := range hr.Crashes {
			inconclusive = append(inconclusive, fmt.Sprintf("%s: engine crash %s x%d", h.Name, k, n))
		}
		for _, se := range hr.SolverErrors {
			inconclusive = append(inconclusive, fmt.Sprintf("%s: solver error %s", h.Name, se))
		}
		// vacuity: every vReach label in the harness source must have a witness
		labels := g.reachLabels(h)
		for _, l := range labels {
			if m, ok := hr.Reached[l]; ok {
				hs.Reached = append(hs.Reached, l)
				if h.Expect == "" && len(hr.Violations) == 0 {
					wits = append(wits, witness{h: h, args: hr.ReachedArgs[l], model: m, label: l})
				}
				if len(samples) < 24 {
					samples = append(samples, map[string]interface{}{"harness": h.Name, "reach": l, "instance": hr.ReachedInst[l], "witness": renderModel(m)})
				}
			} else if len(hr.Violations) == 0 {
				inconclusive = append(inconclusive, fmt.Sprintf("%s: vacuity: label %q never reached", h.Name, l))
			}
		}
		sort.Strings(hs.Reached)
		sums = append(sums, hs)
		totalPaths += hr.Paths
		totalQueries += hr.Queries
		totalSat += hr.Sat
		totalUnsat += hr.Unsat
		totalUnk += hr.Unknown
		solverS += hr.SolverTime.Seconds()
		allViol = append(allViol, hr.Violations...)
		fmt.Printf("[%s] %s: instances=%d paths=%d queries=%d (sat %d unsat %d unknown %d) solver=%.1fs wall=%.1fs violations=%d\n",
			prop, h.Name, hr.Instances, hr.Paths, hr.Queries, hr.Sat, hr.Unsat, hr.Unknown, hr.SolverTime.Seconds(), hr.Wall.Seconds(), len(hr.Violations))
	}

	// translator validation: reach witnesses are re-run natively
	witnessOK := 0
	if replay && len(allViol) == 0 {
		var bad []string
		witnessOK, bad = g.validateWitnesses(prop, wits)
		for _, b := range bad {
			inconclusive = append(inconclusive, "translator validation: "+b)
		}
	}
	// replay
	confirmed := 0
	var violLines []string
	outDir := filepath.Join(g.verifDir, "out", "replay", prop)
	if len(allViol) > 0 {
		os.MkdirAll(outDir, 0o755)
	}
	seen := map[string]bool{}
	perHarness := map[string]int{}
	for i, v := range allViol {
		key := v.Instance.String() + "|" + v.Kind + "|" + v.Label + "|" + v.Site
		if seen[key] || perHarness[v.Instance.H.Name+"|"+v.Label] >= 4 {
			continue
		}
		seen[key] = true
		perHarness[v.Instance.H.Name+"|"+v.Label]++
		path := filepath.Join(outDir, fmt.Sprintf("%s_%d.json", v.Instance.H.Name, i))
		rec := map[string]interface{}{"property": prop, "harness": v.Instance.H.Name, "args": v.Instance.Args, "kind": v.Kind,
			"label": v.Label, "site": v.Site, "model": v.Model, "stack": v.Stack, "witness": renderModel(v.Model)}
		b, _ := json.MarshalIndent(rec, "", " ")
		os.WriteFile(path, b, 0o644)
		status := "unreplayed"
		if replay {
			ok, out := g.nativeReplay(v, path)
			validated++
			if ok {
				status = "reproduced"
			} else {
				status = "NOT reproduced"
				os.WriteFile(path+".replay.log", []byte(out), 0o644)
			}
		}
		fmt.Printf("  counterexample %s %s %q at %s: %s (%s)\n", v.Instance, v.Kind, v.Label, v.Site, status, path)
		if v.Instance.H.Expect == "violation" {
			continue
		}
		if status == "NOT reproduced" {
			inconclusive = append(inconclusive, fmt.Sprintf("%s: counterexample did not reproduce natively (%s)", v.Instance.H.Name, path))
			continue
		}
		if kf := g.matchKnown(prop, v); kf != "" {
			knownAnnounced = append(knownAnnounced, kf)
			continue
		}
		confirmed++
		violLines = append(violLines, fmt.Sprintf("VIOLATION property=%s replay=%s", prop, path))
	}
	for _, h := range hs {
		if h.Expect == "violation" {
			found := false
			for _, v := range allViol {
				if v.Instance.H == h {
					found = true
				}
			}
			if !found {
				inconclusive = append(inconclusive, h.Name+": self-test harness expected a violation and found none")
			}
		}
	}
	for _, k := range g.announceKnown(prop) {
		fmt.Println(k)
	}
	for _, l := range violLines {
		fmt.Println(l)
	}
	wall := time.Since(t0).Seconds()
	g.lastPaths, g.lastQueries = totalPaths, totalQueries
	g.lastHarnesses = nil
	for _, hs := range sums {
		g.lastHarnesses = append(g.lastHarnesses, fmt.Sprintf("%s: %d instances, %d paths, %d queries", hs.Name, hs.Instances, hs.Paths, hs.Queries))
	}
	if writeEv {
		ev := map[string]interface{}{
			"property_id": prop,
			"tier":        tier,
			"seed":        seed,
			"level":       "model_checking",
			"wall_s":      wall,
			"violations":  confirmed,
			"coverage": map[string]interface{}{
				"states":                         totalPaths,
				"transitions":                    totalQueries,
				"traces_validated_against_impl":  validated + witnessOK,
				"reach_witnesses_rerun_natively": witnessOK,
				"samples":                        nonEmpty(samples),
				"explanation":                    "states = symbolic paths completed over all harness instances; transitions = SMT queries discharged (branch feasibility + obligations); every obligation is decided by the solver for all values of the symbolic inputs within the stated bounds",
				"functions_encoded":              g.funcsEncoded(hs),
				"harnesses":                      sums,
				"obligation_sites_discharged":    assertsTotal,
				"sat":                            totalSat,
				"unsat":                          totalUnsat,
				"unknown":                        totalUnk,
				"solver":                         opts.Solver,
				"solver_s":                       solverS,
				"load_and_ssa_build_s":           g.LoadTime.Seconds(),
				"inconclusive":                   inconclusive,
				"known_findings_announced":       knownAnnounced,
				"additional_buffer_sizes":        extraRuns,
				"reader_buffer_bytes":            g.BufSize,
				"encoding":                       "regenerated from the working tree on this run: go/packages + go/ssa over " + g.repo + " with harness overlay; QF_BV terms",
			},
			"assumptions": g.assumptions(hs),
		}
		os.MkdirAll(filepath.Join(g.verifDir, "evidence"), 0o755)
		b, _ := json.MarshalIndent(ev, "", " ")
		os.WriteFile(filepath.Join(g.verifDir, "evidence", prop+".json"), b, 0o644)
	}
	if confirmed > 0 {
		return 1
	}
	if len(inconclusive) > 0 {
		for _, s := range inconclusive {
			fmt.Println("INCONCLUSIVE", s)
		}
		return 2
	}
	fmt.Printf("[%s] held within bounds: %d paths, %d queries, %.1fs\n", prop, totalPaths, totalQueries, wall)
	return 0
}

func nonEmpty(s []interface{}) []interface{} {
	if len(s) == 0 {
		return []interface{}{"no reachability witness recorded"}
	}
	return s
}

// renderModel groups name[i] byte variables into strings for readability.
func renderModel(m map[string]uint64) map[string]interface{} {
	out := map[string]interface{}{}
	arrays := map[string]map[int]byte{}
	for k, v := range m {
		if i := strings.LastIndex(k, "["); i > 0 && strings.HasSuffix(k, "]") {
			idx, err := strconv.Atoi(k[i+1 : len(k)-1])
			if err == nil {
				if arrays[k[:i]] == nil {
					arrays[k[:i]] = map[int]byte{}
				}
				arrays[k[:i]][idx] = byte(v)
				continue
			}
		}
		out[k] = v
	}
	for name, a := range arrays {
		mx := -1
		for i := range a {
			if i > mx {
				mx = i
			}
		}
		b := make([]byte, mx+1)
		for i, c := range a {
			b[i] = c
		}
		out[name] = strconv.Quote(string(b))
	}
	return out
}

func (g *Engine) funcsEncoded(hs []*Harness) []string {
	// the repo functions reachable from the harnesses (static call graph walk over SSA)
	seen := map[string]int{}
	var walk func(fnName string)
	_ = walk
	for _, h := range hs {
		g.reachableFuncs(h.Fn, seen)
	}
	var out []string
	for k, n := range seen {
		out = append(out, fmt.Sprintf("%s (%d instrs)", k, n))
	}
	sort.Strings(out)
	return out
}

func (g *Engine) assumptions(hs []*Harness) []string {
	a := []string{
		"library callees are replaced by the summaries in engine/intrinsics.go (bytes/strings helpers, sort as insertion sort / sorting network, fmt.Sprintf natively on concrete arguments, fmt.Errorf/errors.New as fresh error objects whose text is not modelled)",
		"Go int = 64-bit two's complement; append growth policy is modelled as doubling (aliasing after growth is not relied on by the code under analysis)",
		"map iteration visits entries in an arbitrary order chosen per path (all orders explored)",
		"bounds are those listed per harness under coverage.harnesses[].bounds; inputs outside them are outside the claim",
	}
	for _, h := range hs {
		if len(h.Contracts) > 0 {
			a = append(a, fmt.Sprintf("%s: callees %v are replaced by their contracts (no panic, writes only through pointer arguments, arbitrary result); the contracts are discharged by their own unit harnesses", h.Name, h.Contracts))
		}
	}
	return a
}
