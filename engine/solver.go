package main

// Persistent SMT solver process (z3 -in by default). Every hash-consed term is
// defined once at the top level with define-fun; a query is
// (push)(assert ...)(check-sat)[(get-value ...)](pop).

import (
	"bufio"
	"fmt"
	"io"
	"os"
	"os/exec"
	"path/filepath"
	"runtime"
	"strconv"
	"strings"
	"time"
)

var slowLog = os.Getenv("GOSMT_SLOW") != ""

type Result int

const (
	Unsat Result = iota
	Sat
	Unknown
)

func (r Result) String() string { return [...]string{"unsat", "sat", "unknown"}[r] }

type Solver struct {
	kind         string // z3 | z3-new | cvc5
	cmd          *exec.Cmd
	in           io.WriteCloser
	out          *bufio.Reader
	defined      map[int]bool
	declUF       map[string]bool
	ctx          *Ctx
	Queries      int
	NSat         int
	NUnsat       int
	NUnk         int
	Time         time.Duration
	timeout      int // ms per query
	Errors       []string
	sinceRestart int
	Log          io.Writer
	// incremental assertion stack: one push level per path-condition conjunct
	stack     []*Term
	levels    [][]int // term IDs named (declared) at each level; levels[0] is the base
	named     map[int]bool
	pendingUF []string
}

func solverArgs(kind string, timeoutMs int) (string, []string) {
	switch kind {
	case "z3-new":
		return "z3-new", []string{"-in", fmt.Sprintf("-t:%d", timeoutMs)}
	case "cvc5":
		return "cvc5", []string{"--incremental", "--lang=smt2", "--produce-models", fmt.Sprintf("--tlimit-per=%d", timeoutMs)}
	}
	return "z3", []string{"-in", fmt.Sprintf("-t:%d", timeoutMs)}
}

func NewSolver(ctx *Ctx, kind string, timeoutMs int) *Solver {
	s := &Solver{kind: kind, ctx: ctx, timeout: timeoutMs}
	s.start()
	return s
}

func (s *Solver) start() {
	bin, args := solverArgs(s.kind, s.timeout)
	s.cmd = exec.Command(bin, args...)
	var err error
	s.in, err = s.cmd.StdinPipe()
	if err != nil {
		panic(err)
	}
	o, err := s.cmd.StdoutPipe()
	if err != nil {
		panic(err)
	}
	s.cmd.Stderr = s.cmd.Stdout
	s.out = bufio.NewReaderSize(o, 1<<20)
	if err := s.cmd.Start(); err != nil {
		panic(err)
	}
	s.defined = map[int]bool{}
	s.declUF = map[string]bool{}
	s.sinceRestart = 0
	s.stack = nil
	s.levels = [][]int{nil}
	s.named = map[int]bool{}
	if s.kind == "cvc5" {
		s.send("(set-logic QF_UFBV)\n")
	}
	s.send("(set-option :produce-models true)\n")
}

func (s *Solver) Close() {
	if s.cmd != nil {
		s.in.Close()
		s.cmd.Process.Kill()
		s.cmd.Wait()
		s.cmd = nil
	}
}

func (s *Solver) Restart() {
	s.Close()
	s.start()
}

func (s *Solver) send(txt string) {
	if s.Log != nil {
		io.WriteString(s.Log, txt)
	}
	if _, err := io.WriteString(s.in, txt); err != nil {
		panic(fmt.Sprintf("solver write: %v", err))
	}
}

// declare emits declarations for the not-yet-declared variables / UFs among
// the nodes, and returns the non-leaf nodes reachable from ts in topological
// order (children first).
func (s *Solver) topo(ts []*Term, sb *strings.Builder) []*Term {
	seen := map[int]bool{}
	var order []*Term
	type fr struct {
		t *Term
		i int
	}
	for _, root := range ts {
		if seen[root.ID] {
			continue
		}
		st := []fr{{root, 0}}
		for len(st) > 0 {
			f := &st[len(st)-1]
			if f.i == 0 && seen[f.t.ID] {
				st = st[:len(st)-1]
				continue
			}
			if f.i < len(f.t.Args) {
				a := f.t.Args[f.i]
				f.i++
				if !seen[a.ID] {
					st = append(st, fr{a, 0})
				}
				continue
			}
			x := f.t
			st = st[:len(st)-1]
			if seen[x.ID] {
				continue
			}
			seen[x.ID] = true
			switch x.Op {
			case OpConst:
			case OpVar:
				if !s.defined[x.ID] {
					s.defined[x.ID] = true
					fmt.Fprintf(sb, "(declare-const %s %s)\n", varSMT(x), sortName(x.W))
				}
			default:
				if x.Op == OpUF && !s.declUF[x.Name] {
					s.declUF[x.Name] = true
					sig := s.ctx.ufs[x.Name]
					var ps []string
					for _, w := range sig[:len(sig)-1] {
						ps = append(ps, sortName(w))
					}
					fmt.Fprintf(sb, "(declare-fun %s (%s) %s)\n", smtName(x.Name), strings.Join(ps, " "), sortName(sig[len(sig)-1]))
				}
				order = append(order, x)
			}
		}
	}
	return order
}

// assertion renders the conjunction as one assert with a let-chain over the
// shared nodes (nested 0-ary define-funs make z3 re-expand bodies on every use,
// which was measured to dominate the run time).
func (s *Solver) assertion(conj []*Term, sb *strings.Builder) {
	var live []*Term
	for _, t := range conj {
		if !t.IsTrue() {
			live = append(live, t)
		}
	}
	var decl strings.Builder
	order := s.topo(live, &decl)
	sb.WriteString(decl.String())
	sb.WriteString("(assert ")
	for _, x := range order {
		fmt.Fprintf(sb, "(let ((t%d %s)) ", x.ID, body(x))
	}
	switch len(live) {
	case 0:
		sb.WriteString("true")
	case 1:
		sb.WriteString(ref(live[0]))
	default:
		sb.WriteString("(and")
		for _, t := range live {
			sb.WriteString(" " + ref(t))
		}
		sb.WriteString(")")
	}
	for range order {
		sb.WriteString(")")
	}
	sb.WriteString(")\n")
}

// nameNodes emits, for every not-yet-named node reachable from t, a constant
// tN with its defining equation (Tseitin style) in the current level.
func (s *Solver) nameNodes(t *Term, sb *strings.Builder) {
	if t.Op == OpConst || s.named[t.ID] {
		return
	}
	type fr struct {
		t *Term
		i int
	}
	st := []fr{{t, 0}}
	lvl := len(s.levels) - 1
	for len(st) > 0 {
		f := &st[len(st)-1]
		if f.t.Op == OpConst || s.named[f.t.ID] {
			st = st[:len(st)-1]
			continue
		}
		if f.i < len(f.t.Args) {
			a := f.t.Args[f.i]
			f.i++
			if a.Op != OpConst && !s.named[a.ID] {
				st = append(st, fr{a, 0})
			}
			continue
		}
		x := f.t
		st = st[:len(st)-1]
		s.named[x.ID] = true
		s.levels[lvl] = append(s.levels[lvl], x.ID)
		switch x.Op {
		case OpVar:
			fmt.Fprintf(sb, "(declare-const %s %s)\n", varSMT(x), sortName(x.W))
		default:
			if x.Op == OpUF && !s.declUF[x.Name] {
				// UF declarations are global: make sure they are emitted at the base level
				s.declUF[x.Name] = true
				sig := s.ctx.ufs[x.Name]
				var ps []string
				for _, w := range sig[:len(sig)-1] {
					ps = append(ps, sortName(w))
				}
				s.pendingUF = append(s.pendingUF, fmt.Sprintf("(declare-fun %s (%s) %s)\n", smtName(x.Name), strings.Join(ps, " "), sortName(sig[len(sig)-1])))
			}
			fmt.Fprintf(sb, "(declare-const t%d %s)(assert (= t%d %s))\n", x.ID, sortName(x.W), x.ID, body(x))
		}
	}
}

func (s *Solver) popTo(n int, sb *strings.Builder) {
	if len(s.stack) <= n {
		return
	}
	k := len(s.stack) - n
	fmt.Fprintf(sb, "(pop %d)\n", k)
	for l := len(s.levels) - 1; l > n; l-- {
		for _, id := range s.levels[l] {
			delete(s.named, id)
		}
	}
	s.levels = s.levels[:n+1]
	s.stack = s.stack[:n]
}

// CheckInc decides pc ∧ extra. The path condition is kept on the solver's
// assertion stack (one level per conjunct, longest common prefix reused), so
// each conjunct is sent and internalised once per path instead of once per
// query.
func (s *Solver) CheckInc(pc []*Term, extra []*Term, wantModel bool) (Result, map[string]uint64) {
	t0 := time.Now()
	defer func() { s.Time += time.Since(t0) }()
	s.Queries++
	s.sinceRestart++
	if slowLog {
		_, f1, l1, _ := runtime.Caller(2)
		_, f2, l2, _ := runtime.Caller(3)
		_, f3, l3, _ := runtime.Caller(4)
		fmt.Fprintf(os.Stderr, "QORIGIN %s:%d<%s:%d<%s:%d\n", filepath.Base(f1), l1, filepath.Base(f2), l2, filepath.Base(f3), l3)
	}
	for _, t := range pc {
		if t.IsFalse() {
			s.NUnsat++
			return Unsat, nil
		}
	}
	for _, t := range extra {
		if t.IsFalse() {
			s.NUnsat++
			return Unsat, nil
		}
	}
	if s.sinceRestart > 20000 {
		s.Restart()
	}
	if len(s.pendingUF) > 0 || s.ufDirty() {
		// a new uninterpreted function must be declared at the base level
	}
	var sb strings.Builder
	lcp := 0
	for lcp < len(s.stack) && lcp < len(pc) && s.stack[lcp] == pc[lcp] {
		lcp++
	}
	s.popTo(lcp, &sb)
	for i := lcp; i < len(pc); i++ {
		sb.WriteString("(push 1)\n")
		s.levels = append(s.levels, nil)
		s.stack = append(s.stack, pc[i])
		if pc[i].IsTrue() {
			continue
		}
		s.nameNodes(pc[i], &sb)
		fmt.Fprintf(&sb, "(assert %s)\n", ref(pc[i]))
	}
	sb.WriteString("(push 1)\n")
	s.levels = append(s.levels, nil)
	for _, t := range extra {
		if t.IsTrue() {
			continue
		}
		s.nameNodes(t, &sb)
		fmt.Fprintf(&sb, "(assert %s)\n", ref(t))
	}
	sb.WriteString("(check-sat)\n")
	if len(s.pendingUF) > 0 {
		// UFs must exist before first use: restart the stack with them at the base
		pre := strings.Join(s.pendingUF, "")
		s.pendingUF = nil
		var rs strings.Builder
		if len(s.stack) > 0 {
			fmt.Fprintf(&rs, "(pop %d)\n", len(s.stack)+1)
		} else {
			rs.WriteString("(pop 1)\n")
		}
		// simplest correct handling: reset everything and redo the query non-incrementally
		s.send("(reset)\n(set-option :produce-models true)\n" + pre)
		for n := range s.declUF {
			_ = n
		}
		s.stack = nil
		s.levels = [][]int{nil}
		s.named = map[int]bool{}
		s.defined = map[int]bool{}
		// re-declare every known UF after the reset
		for name := range s.declUF {
			sig := s.ctx.ufs[name]
			var ps []string
			for _, w := range sig[:len(sig)-1] {
				ps = append(ps, sortName(w))
			}
			if !strings.Contains(pre, "(declare-fun "+smtName(name)+" ") {
				s.send(fmt.Sprintf("(declare-fun %s (%s) %s)\n", smtName(name), strings.Join(ps, " "), sortName(sig[len(sig)-1])))
			}
		}
		s.Queries--
		s.sinceRestart--
		return s.CheckInc(pc, extra, wantModel)
	}
	s.send(sb.String())
	line := s.readLine()
	var res Result
	switch line {
	case "sat":
		res = Sat
		s.NSat++
	case "unsat":
		res = Unsat
		s.NUnsat++
	default:
		if !strings.HasPrefix(line, "unknown") && !strings.HasPrefix(line, "timeout") {
			s.Errors = append(s.Errors, line)
		}
		res = Unknown
		s.NUnk++
	}
	var model map[string]uint64
	if res == Sat && wantModel {
		all := append(append([]*Term{}, pc...), extra...)
		vars := Vars(all)
		model = map[string]uint64{}
		if len(vars) > 0 {
			var q strings.Builder
			q.WriteString("(get-value (")
			for _, v := range vars {
				q.WriteString(varSMT(v) + " ")
			}
			q.WriteString("))\n")
			s.send(q.String())
			txt := s.readSexp()
			parseValues(txt, vars, model)
		}
	}
	// drop the query level
	s.send("(pop 1)\n")
	top := len(s.levels) - 1
	for _, id := range s.levels[top] {
		delete(s.named, id)
	}
	s.levels = s.levels[:top]
	if slowLog {
		d := time.Since(t0)
		if d > 100*time.Millisecond {
			fmt.Fprintf(os.Stderr, "SLOWINC %v pc=%d extra=%d\n", d, len(pc), len(extra))
		}
	}
	return res, model
}

func (s *Solver) ufDirty() bool { return false }

// Check decides satisfiability of the conjunction of conj. If wantModel and the
// answer is sat, the values of all free variables are returned.
func (s *Solver) Check(conj []*Term, wantModel bool) (Result, map[string]uint64) {
	return s.CheckInc(nil, conj, wantModel)
}

func (s *Solver) readLine() string {
	for {
		l, err := s.out.ReadString('\n')
		if err != nil {
			panic(fmt.Sprintf("solver died: %v (%q)", err, l))
		}
		l = strings.TrimSpace(l)
		if l == "" || l == "success" {
			continue
		}
		if strings.HasPrefix(l, "(error") {
			s.Errors = append(s.Errors, l)
			// an error line means the query is inconclusive; keep reading for
			// the check-sat answer so the stream stays in sync.
			continue
		}
		return l
	}
}

// readSexp reads one balanced s-expression.
func (s *Solver) readSexp() string {
	var sb strings.Builder
	depth := 0
	started := false
	for {
		b, err := s.out.ReadByte()
		if err != nil {
			panic("solver died while reading model")
		}
		sb.WriteByte(b)
		if b == '(' {
			depth++
			started = true
		} else if b == ')' {
			depth--
			if started && depth == 0 {
				return sb.String()
			}
		}
	}
}

func parseValues(txt string, vars []*Term, model map[string]uint64) {
	// ((name value) (name value) ...)
	toks := tokenize(txt)
	// walk: "(" "(" name value ")" ...
	i := 0
	next := func() string {
		if i < len(toks) {
			i++
			return toks[i-1]
		}
		return ""
	}
	next() // (
	for i < len(toks) {
		t := next()
		if t != "(" {
			break
		}
		name := next()
		val := next()
		if val == "(" { // (_ bvN w)
			a := next()
			if a == "_" {
				bv := next()
				next()
				next()
				v, _ := strconv.ParseUint(strings.TrimPrefix(bv, "bv"), 10, 64)
				model[modelName(name)] = v
			}
		} else {
			model[modelName(name)] = parseLit(val)
		}
		next() // )
	}
}

func modelName(n string) string {
	n = strings.Trim(n, "|")
	if i := strings.LastIndex(n, "!"); i >= 0 {
		n = n[:i]
	}
	return n
}

func parseLit(v string) uint64 {
	switch {
	case v == "true":
		return 1
	case v == "false":
		return 0
	case strings.HasPrefix(v, "#x"):
		u, _ := strconv.ParseUint(v[2:], 16, 64)
		return u
	case strings.HasPrefix(v, "#b"):
		u, _ := strconv.ParseUint(v[2:], 2, 64)
		return u
	}
	return 0
}

func tokenize(s string) []string {
	var out []string
	i := 0
	for i < len(s) {
		c := s[i]
		switch {
		case c == '(' || c == ')':
			out = append(out, string(c))
			i++
		case c == ' ' || c == '\n' || c == '\t' || c == '\r':
			i++
		case c == '|':
			j := i + 1
			for j < len(s) && s[j] != '|' {
				j++
			}
			out = append(out, s[i:j+1])
			i = j + 1
		default:
			j := i
			for j < len(s) && !strings.ContainsRune("() \n\t\r", rune(s[j])) {
				j++
			}
			out = append(out, s[i:j])
			i = j
		}
	}
	return out
}

// Script renders a standalone SMT-LIB2 script for the conjunction (used for the
// cross-solver agreement runs and for debugging).
func Script(ctx *Ctx, conj []*Term) string {
	tmp := &Solver{ctx: ctx, defined: map[int]bool{}, declUF: map[string]bool{}}
	var sb strings.Builder
	tmp.assertion(conj, &sb)
	sb.WriteString("(check-sat)\n")
	return sb.String()
}
