package main

// Summaries of library callees (the trusted base; DESIGN.md §2.4) and the
// harness runtime (vInt, vAssume, ...).

import (
	"fmt"
	"go/types"
	"html/template"
	"net/url"
	"regexp"
	"strconv"
	"strings"

	"golang.org/x/tools/go/ssa"
)

type intrinsic func(e *Exec, fn *ssa.Function, args []Value) Value

var intrinsics map[string]intrinsic
var harnessRT map[string]intrinsic

const repoStack = "github.com/maruel/panicparse/v2/stack."

func init() {
	intrinsics = map[string]intrinsic{
		"errors.New":       func(e *Exec, fn *ssa.Function, a []Value) Value { return e.newError(e.where()) },
		"fmt.Errorf":       func(e *Exec, fn *ssa.Function, a []Value) Value { return e.newError(e.where()) },
		"fmt.Sprintf":      inSprintf,
		"sort.Ints":        inSortInts,
		"sort.Sort":        inSortSort,
		"sort.SliceStable": inSortSliceStable,
		"sort.Slice":       inSortSliceStable,
		"sort.Strings":     inSortStrings,
		"regexp.MustCompile": func(e *Exec, fn *ssa.Function, a []Value) Value {
			return &Pointer{Slot: valp(&RegexV{Pattern: e.goString(a[0])}), Obj: &Object{Kind: "regexp"}}
		},

		"(*regexp.Regexp).Match":              inRegexMatch,
		"(*regexp.Regexp).MatchString":        inRegexMatch,
		"(*regexp.Regexp).FindSubmatch":       inRegexFindSubmatch,
		"(*regexp.Regexp).FindStringSubmatch": inRegexFindSubmatch,
		"strconv.ParseUint":                   inParseUint,
		"(*sync.Pool).Get":                    inPoolGet,
		// html/template is not interpreted (reflection): building a template
		// succeeds and executing it does nothing; what the template would call back
		// in this package is checked separately (VH_C14_HTMLHelpers)
		"html/template.New": func(e *Exec, fn *ssa.Function, a []Value) Value {
			return &Pointer{Slot: valp(&StructV{}), Obj: &Object{Kind: "template"}}
		},
		"(*html/template.Template).Funcs": func(e *Exec, fn *ssa.Function, a []Value) Value { return a[0] },
		"(*html/template.Template).Parse": func(e *Exec, fn *ssa.Function, a []Value) Value { return TupleV{a[0], (*IfaceV)(nil)} },
		"(*html/template.Template).Execute": func(e *Exec, fn *ssa.Function, a []Value) Value {
			e.note("summary:html/template.Execute not interpreted")
			return (*IfaceV)(nil)
		},
		"runtime.GOMAXPROCS":             func(e *Exec, fn *ssa.Function, a []Value) Value { return e.ctx.Int(1) },
		"time.Now":                       func(e *Exec, fn *ssa.Function, a []Value) Value { return e.zero(fn.Signature.Results().At(0).Type()) },
		"(time.Time).Truncate":           func(e *Exec, fn *ssa.Function, a []Value) Value { return a[0] },
		"(*strings.Builder).WriteString": inBuilderWrite,
		"(*strings.Builder).Write":       inBuilderWrite,
		"(*strings.Builder).WriteByte":   inBuilderWriteByte,
		"(*strings.Builder).WriteRune":   inBuilderWriteRune,
		"(*strings.Builder).String": func(e *Exec, fn *ssa.Function, a []Value) Value {
			return e.mkString(append([]*Term{}, e.builders[a[0].(*Pointer).Slot]...))
		},
		"(*strings.Builder).Len": func(e *Exec, fn *ssa.Function, a []Value) Value {
			return e.ctx.Int(int64(len(e.builders[a[0].(*Pointer).Slot])))
		},
		"(*strings.Builder).Grow":  func(e *Exec, fn *ssa.Function, a []Value) Value { return nil },
		"(*strings.Builder).Reset": func(e *Exec, fn *ssa.Function, a []Value) Value { delete(e.builders, a[0].(*Pointer).Slot); return nil },
		// concrete-argument summaries (the HTML helper functions): evaluated by the
		// real library function; symbolic arguments are unsupported
		"net/url.QueryEscape": func(e *Exec, fn *ssa.Function, a []Value) Value {
			return e.constString(url.QueryEscape(e.goString(a[0])))
		},
		"html/template.HTMLEscapeString": func(e *Exec, fn *ssa.Function, a []Value) Value {
			return e.constString(template.HTMLEscapeString(e.goString(a[0])))
		},
		"runtime.Version":            func(e *Exec, fn *ssa.Function, a []Value) Value { return e.constString("go1.23.5") },
		"(*net/url.URL).EscapedPath": inURLEscapedPath,
		"strings.SplitN":             inSplitN,
		"(*regexp.Regexp).ReplaceAllString": func(e *Exec, fn *ssa.Function, a []Value) Value {
			rx := (*a[0].(*Pointer).Slot).(*RegexV)
			return e.constString(regexp.MustCompile(rx.Pattern).ReplaceAllString(e.goString(a[1]), e.goString(a[2])))
		},
		"(*sync.Pool).Put":                inPoolPut,
		"net/url.QueryUnescape":           func(e *Exec, fn *ssa.Function, a []Value) Value { return e.urlUnescape(a[0].(*StringV), true) },
		"net/url.PathUnescape":            func(e *Exec, fn *ssa.Function, a []Value) Value { return e.urlUnescape(a[0].(*StringV), false) },
		"unicode/utf8.DecodeRuneInString": inDecodeRune,
		"unicode.ToUpper":                 inToUpper,

		"github.com/mgutz/ansi.ColorCode": func(e *Exec, fn *ssa.Function, a []Value) Value {
			return e.constString("\x1b[" + e.goString(a[0]) + "m")
		},

		"strconv.FormatInt": func(e *Exec, fn *ssa.Function, a []Value) Value {
			x, b := a[0].(*Term), a[1].(*Term)
			if x.IsConst() && b.IsConst() {
				return e.constString(strconv.FormatInt(x.SVal(), int(b.SVal())))
			}
			if !b.IsConst() || b.SVal() != 10 {
				panic(unsupported{"strconv.FormatInt with a base other than 10"})
			}
			return e.mkOpaque("dec-s", x)
		},
		"strconv.FormatUint": func(e *Exec, fn *ssa.Function, a []Value) Value {
			x, b := a[0].(*Term), a[1].(*Term)
			if x.IsConst() && b.IsConst() {
				return e.constString(strconv.FormatUint(x.Val, int(b.SVal())))
			}
			if !b.IsConst() || b.SVal() != 10 {
				panic(unsupported{"strconv.FormatUint with a base other than 10"})
			}
			return e.mkOpaque("dec-u", x)
		},
		"strconv.FormatFloat": func(e *Exec, fn *ssa.Function, a []Value) Value {
			x := a[0].(*Term)
			bits := a[3].(*Term)
			if !bits.IsConst() {
				panic(unsupported{"strconv.FormatFloat with symbolic bit size"})
			}
			return e.mkOpaque(fmt.Sprintf("float%d", bits.SVal()), x)
		},
		"math.Float32frombits": func(e *Exec, fn *ssa.Function, a []Value) Value { return a[0] },
		"math.Float64frombits": func(e *Exec, fn *ssa.Function, a []Value) Value { return a[0] },
		"math.Float32bits":     func(e *Exec, fn *ssa.Function, a []Value) Value { return a[0] },
		"math.Float64bits":     func(e *Exec, fn *ssa.Function, a []Value) Value { return a[0] },

		"bytes.Equal":           func(e *Exec, fn *ssa.Function, a []Value) Value { return e.winEq(e.win(a[0]), e.win(a[1])) },
		"bytes.HasPrefix":       func(e *Exec, fn *ssa.Function, a []Value) Value { return e.hasPrefix(e.win(a[0]), e.win(a[1])) },
		"bytes.HasSuffix":       func(e *Exec, fn *ssa.Function, a []Value) Value { return e.hasSuffix(e.win(a[0]), e.win(a[1])) },
		"strings.HasPrefix":     func(e *Exec, fn *ssa.Function, a []Value) Value { return e.hasPrefix(e.win(a[0]), e.win(a[1])) },
		"strings.HasSuffix":     func(e *Exec, fn *ssa.Function, a []Value) Value { return e.hasSuffix(e.win(a[0]), e.win(a[1])) },
		"bytes.IndexByte":       func(e *Exec, fn *ssa.Function, a []Value) Value { return e.indexByte(e.win(a[0]), a[1].(*Term), false) },
		"strings.IndexByte":     func(e *Exec, fn *ssa.Function, a []Value) Value { return e.indexByte(e.win(a[0]), a[1].(*Term), false) },
		"strings.LastIndexByte": func(e *Exec, fn *ssa.Function, a []Value) Value { return e.indexByte(e.win(a[0]), a[1].(*Term), true) },
		"bytes.LastIndexByte":   func(e *Exec, fn *ssa.Function, a []Value) Value { return e.indexByte(e.win(a[0]), a[1].(*Term), true) },
		"strings.TrimSuffix":    inTrimSuffix,
		"strings.Contains": func(e *Exec, fn *ssa.Function, a []Value) Value {
			return e.ctx.Not(e.ctx.Eq(e.indexOf(e.win(a[0]), e.win(a[1])), e.ctx.Int(-1)))
		},
		"bytes.Contains": func(e *Exec, fn *ssa.Function, a []Value) Value {
			return e.ctx.Not(e.ctx.Eq(e.indexOf(e.win(a[0]), e.win(a[1])), e.ctx.Int(-1)))
		},
		"strings.Index":     func(e *Exec, fn *ssa.Function, a []Value) Value { return e.indexOf(e.win(a[0]), e.win(a[1])) },
		"bytes.Index":       func(e *Exec, fn *ssa.Function, a []Value) Value { return e.indexOf(e.win(a[0]), e.win(a[1])) },
		"strings.Join":      inJoin,
		"strings.Count":     inCount,
		"bytes.Split":       inSplit,
		"strings.Split":     inSplit,
		"bytes.TrimSpace":   inTrimSpace,
		"strings.TrimSpace": inTrimSpace,

		// process environment: fixed, documented values
		"runtime.GOROOT": func(e *Exec, fn *ssa.Function, a []Value) Value { return e.constString("/goroot") },
		"os.Getenv":      func(e *Exec, fn *ssa.Function, a []Value) Value { return e.constString("") },
		"log.Printf":     func(e *Exec, fn *ssa.Function, a []Value) Value { return nil },
		repoStack + "getGOPATHs": func(e *Exec, fn *ssa.Function, a []Value) Value {
			sl := e.newSlice(types.Typ[types.String], 1, 1, "getGOPATHs")
			sl.Arr.Elems[0] = e.constString("/gopath")
			return sl
		},
		// no go.mod (or any other file content) is modelled: reads fail
		"os.ReadFile": func(e *Exec, fn *ssa.Function, a []Value) Value {
			e.note("summary:os.ReadFile fails")
			return TupleV{e.zero(types.NewSlice(types.Typ[types.Byte])), e.newError("os.ReadFile")}
		},
		// the file system is an arbitrary oracle: any answer, per probe
		repoStack + "isFile": func(e *Exec, fn *ssa.Function, a []Value) Value {
			if e.files == nil {
				return e.fresh("isFile", 0)
			}
			// the harness declared which files exist (vSetFile)
			acc := e.ctx.False
			for _, f := range e.files {
				acc = e.ctx.Or(acc, e.strEq(a[0].(*StringV), f))
			}
			return acc
		},

		repoStack + "unsafeString": func(e *Exec, fn *ssa.Function, a []Value) Value {
			s := a[0].(*SliceV)
			if isNil(s) {
				return e.constString("")
			}
			bs := make([]*Term, len(s.Arr.Elems))
			for i, v := range s.Arr.Elems {
				bs[i] = v.(*Term)
			}
			return &StringV{B: bs, Off: s.Off, Len: s.Len, Alias: s.Arr}
		},
	}
	harnessRT = map[string]intrinsic{
		"vByte": func(e *Exec, fn *ssa.Function, a []Value) Value { return e.fresh(e.goString(a[0]), 8) },
		"vInt":  func(e *Exec, fn *ssa.Function, a []Value) Value { return e.fresh(e.goString(a[0]), 64) },
		"vU64":  func(e *Exec, fn *ssa.Function, a []Value) Value { return e.fresh(e.goString(a[0]), 64) },
		"vBool": func(e *Exec, fn *ssa.Function, a []Value) Value { return e.fresh(e.goString(a[0]), 0) },
		"vBytes": func(e *Exec, fn *ssa.Function, a []Value) Value {
			name := e.goString(a[0])
			n := int(e.pick(a[1].(*Term)))
			bs := make([]*Term, n)
			for i := range bs {
				bs[i] = e.fresh(fmt.Sprintf("%s[%d]", name, i), 8)
			}
			return e.mkByteSlice(bs, "vBytes:"+name)
		},
		"vString": func(e *Exec, fn *ssa.Function, a []Value) Value {
			name := e.goString(a[0])
			n := int(e.pick(a[1].(*Term)))
			bs := make([]*Term, n)
			for i := range bs {
				bs[i] = e.fresh(fmt.Sprintf("%s[%d]", name, i), 8)
			}
			return e.mkString(bs)
		},
		"vChoose": func(e *Exec, fn *ssa.Function, a []Value) Value {
			// a byte drawn from a concrete alphabet: a guarded value set over
			// fresh selector bits (folds under comparisons with constants)
			name, alpha := e.goString(a[0]), e.goString(a[1])
			nbits := 0
			for (1 << nbits) < len(alpha) {
				nbits++
			}
			bits := make([]*Term, nbits)
			for i := range bits {
				bits[i] = e.fresh(fmt.Sprintf("%s.b%d", name, i), 0)
			}
			var build func(lo, level int) *Term
			build = func(lo, level int) *Term {
				if level < 0 {
					return e.ctx.BV(uint64(alpha[lo%len(alpha)]), 8)
				}
				return e.ctx.Ite(bits[level], build(lo+(1<<level), level-1), build(lo, level-1))
			}
			return build(0, nbits-1)
		},
		"vAssume": func(e *Exec, fn *ssa.Function, a []Value) Value { e.assume(a[0].(*Term)); return nil },
		"vAssert": func(e *Exec, fn *ssa.Function, a []Value) Value {
			label := e.goString(a[1])
			e.note("assert:" + label)
			e.obligation(e.ctx.Not(a[0].(*Term)), "assert", label)
			return nil
		},
		"vReach": func(e *Exec, fn *ssa.Function, a []Value) Value {
			label := e.goString(a[0])
			if !e.reached[label] && !e.eng.isReached(e.hname, label) {
				r, m := e.sat()
				if r == Sat {
					e.reached[label] = true
					e.reachModel[label] = m
					e.eng.setReached(e.hname, label)
				}
			}
			return nil
		},
		"vConcretize": func(e *Exec, fn *ssa.Function, a []Value) Value {
			return e.ctx.Int(e.pick(a[0].(*Term)))
		},
		"vBarrierOn":  func(e *Exec, fn *ssa.Function, a []Value) Value { e.epoch++; e.barrier = e.epoch; return nil },
		"vBarrierOff": func(e *Exec, fn *ssa.Function, a []Value) Value { e.barrier = 0; return nil },
		"vSymbolic":   func(e *Exec, fn *ssa.Function, a []Value) Value { return e.ctx.True },
		"vKnown": func(e *Exec, fn *ssa.Function, a []Value) Value {
			return e.ctx.Bool(e.eng.known[e.goString(a[0])])
		},
		"vAliases": func(e *Exec, fn *ssa.Function, a []Value) Value {
			s := a[0].(*StringV)
			return e.ctx.Bool(s.Alias != nil)
		},
		"vAnd":     func(e *Exec, fn *ssa.Function, a []Value) Value { return e.ctx.And(a[0].(*Term), a[1].(*Term)) },
		"vOr":      func(e *Exec, fn *ssa.Function, a []Value) Value { return e.ctx.Or(a[0].(*Term), a[1].(*Term)) },
		"vNot":     func(e *Exec, fn *ssa.Function, a []Value) Value { return e.ctx.Not(a[0].(*Term)) },
		"vImplies": func(e *Exec, fn *ssa.Function, a []Value) Value { return e.ctx.Implies(a[0].(*Term), a[1].(*Term)) },
		"vIte": func(e *Exec, fn *ssa.Function, a []Value) Value {
			return e.ctx.Ite(a[0].(*Term), a[1].(*Term), a[2].(*Term))
		},
		"vSharesMemory": func(e *Exec, fn *ssa.Function, a []Value) Value {
			x, y := a[0].(*SliceV), a[1].(*SliceV)
			return e.ctx.Bool(!isNil(x) && !isNil(y) && x.Arr == y.Arr)
		},
		"vStrSharesMemory": func(e *Exec, fn *ssa.Function, a []Value) Value {
			x, y := a[0].(*StringV), a[1].(*SliceV)
			return e.ctx.Bool(x.Alias != nil && !isNil(y) && x.Alias == y.Arr)
		},
		"vSetFile": func(e *Exec, fn *ssa.Function, a []Value) Value {
			if e.files == nil {
				e.files = []*StringV{}
			}
			e.files = append(e.files, a[0].(*StringV))
			return nil
		},
		"vTempRoot": func(e *Exec, fn *ssa.Function, a []Value) Value { return e.constString("/vroot") },
		"vNote":     func(e *Exec, fn *ssa.Function, a []Value) Value { e.note("harness:" + e.goString(a[0])); return nil },
	}
}

func valp(v Value) *Value { p := new(Value); *p = v; return p }

// ------------------------------------------------------------ byte windows

type win struct {
	b        []*Term
	off, len *Term
}

func (e *Exec) win(v Value) win {
	switch x := v.(type) {
	case *StringV:
		if x.Tok != nil {
			panic(unsupported{"window of opaque string"})
		}
		return win{x.B, x.Off, x.Len}
	case *SliceV:
		if isNil(x) {
			return win{nil, e.ctx.Int(0), e.ctx.Int(0)}
		}
		bs := make([]*Term, len(x.Arr.Elems))
		for i, el := range x.Arr.Elems {
			bs[i] = el.(*Term)
		}
		return win{bs, x.Off, x.Len}
	}
	panic(unsupported{fmt.Sprintf("window of %T", v)})
}

func (w win) conc() bool { return w.off.IsConst() && w.len.IsConst() }

func (e *Exec) winBytes(w win) []*Term {
	off := int(e.pick(w.off))
	n := int(e.pick(w.len))
	return w.b[off : off+n]
}

func (e *Exec) winAt(w win, k *Term) *Term {
	return e.byteAt(w.b, e.ctx.Add(w.off, k))
}

func (e *Exec) winEq(a, b win) *Term {
	sa := &StringV{B: a.b, Off: a.off, Len: a.len}
	sb := &StringV{B: b.b, Off: b.off, Len: b.len}
	return e.strEq(sa, sb)
}

// hasPrefix(s, p): p's window is concretised; s may be symbolic.
func (e *Exec) hasPrefix(s, p win) *Term {
	c := e.ctx
	pb := e.winBytes(p)
	fits := c.Sle(c.Int(int64(len(pb))), s.len)
	if fits.IsFalse() {
		return fits
	}
	conj := []*Term{fits}
	for k, t := range pb {
		conj = append(conj, c.Eq(e.winAt(s, c.Int(int64(k))), t))
	}
	return c.And(conj...)
}

func (e *Exec) hasSuffix(s, p win) *Term {
	c := e.ctx
	pb := e.winBytes(p)
	n := c.Int(int64(len(pb)))
	fits := c.Sle(n, s.len)
	if fits.IsFalse() {
		return fits
	}
	conj := []*Term{fits}
	base := c.Sub(s.len, n)
	for k, t := range pb {
		conj = append(conj, c.Eq(e.winAt(s, c.Add(base, c.Int(int64(k)))), t))
	}
	return c.And(conj...)
}

// indexByte returns the first (last) index of ch in the window, or -1.
func (e *Exec) indexByte(s win, ch *Term, last bool) *Term {
	c := e.ctx
	if len(s.b) > 256 && !s.conc() && s.off.isConstTree() && s.len.isConstTree() &&
		len(c.LeafValues(s.off))*len(c.LeafValues(s.len)) <= 64 {
		// guarded value sets for the window: one concrete window per leaf pair
		// (pairs no path reaches are clamped to the backing store; their guard is false)
		return c.mapLeaves(s.off, func(o *Term) *Term {
			return c.mapLeaves(s.len, func(n *Term) *Term {
				ov, nv := o.SVal(), n.SVal()
				if ov < 0 {
					ov = 0
				}
				if ov > int64(len(s.b)) {
					ov = int64(len(s.b))
				}
				if nv < 0 {
					nv = 0
				}
				if ov+nv > int64(len(s.b)) {
					nv = int64(len(s.b)) - ov
				}
				return e.indexByte(win{s.b, c.Int(ov), c.Int(nv)}, ch, last)
			}, map[int]*Term{})
		}, map[int]*Term{})
	}
	maxn := len(s.b)
	if s.len.IsConst() {
		maxn = int(s.len.SVal())
	}
	acc := c.Int(-1)
	if !last {
		for k := maxn - 1; k >= 0; k-- {
			kk := c.Int(int64(k))
			hit := c.And(c.Slt(kk, s.len), c.Eq(e.winAt(s, kk), ch))
			acc = c.Ite(hit, kk, acc)
		}
	} else {
		for k := 0; k < maxn; k++ {
			kk := c.Int(int64(k))
			hit := c.And(c.Slt(kk, s.len), c.Eq(e.winAt(s, kk), ch))
			acc = c.Ite(hit, kk, acc)
		}
	}
	return acc
}

// indexOf: first index of sep in s (both windows concretised), or -1.
func (e *Exec) indexOf(s, sep win) *Term {
	c := e.ctx
	sb, pb := e.winBytes(s), e.winBytes(sep)
	if len(pb) == 0 {
		return c.Int(0)
	}
	acc := c.Int(-1)
	for k := len(sb) - len(pb); k >= 0; k-- {
		acc = c.Ite(e.bytesEq(sb[k:k+len(pb)], pb), c.Int(int64(k)), acc)
	}
	return acc
}

func (e *Exec) valFromWin(orig Value, b []*Term, off, n *Term) Value {
	switch x := orig.(type) {
	case *StringV:
		return &StringV{B: x.B, Off: off, Len: n, Alias: x.Alias}
	case *SliceV:
		if isNil(x) {
			// a window of a nil slice is the nil slice (nil[:0:0])
			return x
		}
		capv := e.ctx.Sub(e.ctx.Add(x.Off, x.Cap), off)
		return &SliceV{Arr: x.Arr, Off: off, Len: n, Cap: capv}
	}
	panic("valFromWin")
}

func inTrimSuffix(e *Exec, fn *ssa.Function, a []Value) Value {
	s, p := e.win(a[0]), e.win(a[1])
	if e.branch(e.hasSuffix(s, p)) {
		return e.valFromWin(a[0], s.b, s.off, e.ctx.Sub(s.len, p.len))
	}
	return a[0]
}

func inJoin(e *Exec, fn *ssa.Function, a []Value) Value {
	parts := a[0].(*SliceV)
	{
		po, pn := e.sliceWindow(parts)
		anyOpq := false
		for i := 0; i < pn; i++ {
			if sv, ok := parts.Arr.Elems[po+i].(*StringV); ok && sv.Tok != nil {
				anyOpq = true
			}
		}
		if anyOpq {
			var ps []interface{}
			for i := 0; i < pn; i++ {
				if i > 0 {
					ps = append(ps, a[1].(*StringV))
				}
				ps = append(ps, parts.Arr.Elems[po+i].(*StringV))
			}
			return e.concatOpaque(ps)
		}
	}
	sep := e.strBytes(a[1].(*StringV))
	off, n := e.sliceWindow(parts)
	var out []*Term
	for i := 0; i < n; i++ {
		if i > 0 {
			out = append(out, sep...)
		}
		out = append(out, e.strBytes(parts.Arr.Elems[off+i].(*StringV))...)
	}
	return e.mkString(out)
}

func inCount(e *Exec, fn *ssa.Function, a []Value) Value {
	c := e.ctx
	s := e.strBytes(a[0].(*StringV))
	sep := e.strBytes(a[1].(*StringV))
	if len(sep) != 1 {
		panic(unsupported{"strings.Count with multi-byte separator"})
	}
	acc := c.Int(0)
	for _, b := range s {
		acc = c.Add(acc, c.Ite(c.Eq(b, sep[0]), c.Int(1), c.Int(0)))
	}
	return acc
}

// inSplit: leftmost non-overlapping separator occurrences, forking on each
// candidate position that is not decided by constants.
func inSplit(e *Exec, fn *ssa.Function, a []Value) Value {
	w := e.win(a[0])
	off := int(e.pick(w.off))
	n := int(e.pick(w.len))
	sep := e.winBytes(e.win(a[1]))
	if len(sep) == 0 {
		panic(unsupported{"Split with empty separator"})
	}
	var cuts [][2]int // [start,end) of pieces relative to window
	start := 0
	i := 0
	for i+len(sep) <= n {
		if e.branch(e.bytesEq(w.b[off+i:off+i+len(sep)], sep)) {
			cuts = append(cuts, [2]int{start, i})
			i += len(sep)
			start = i
		} else {
			i++
		}
	}
	cuts = append(cuts, [2]int{start, n})
	_, isStr := a[0].(*StringV)
	var et types.Type = types.NewSlice(types.Typ[types.Byte])
	if isStr {
		et = types.Typ[types.String]
	}
	out := e.newSlice(et, len(cuts), len(cuts), "Split")
	for k, c := range cuts {
		out.Arr.Elems[k] = e.valFromWin(a[0], w.b, e.ctx.Int(int64(off+c[0])), e.ctx.Int(int64(c[1]-c[0])))
		if sv, ok := out.Arr.Elems[k].(*SliceV); ok {
			// Go's Split caps each piece at its length (s[:m:m])
			sv.Cap = sv.Len
		}
	}
	return out
}

func isASCIISpace(c *Ctx, b *Term) *Term {
	return c.Or(c.Eq(b, c.BV(' ', 8)), c.Eq(b, c.BV('\t', 8)), c.Eq(b, c.BV('\n', 8)), c.Eq(b, c.BV('\r', 8)), c.Eq(b, c.BV('\v', 8)), c.Eq(b, c.BV('\f', 8)))
}

// inTrimSpace trims ASCII white space only; non-ASCII white space (U+0085,
// U+00A0, ...) is left in place. Its only callers in the code under analysis
// feed error texts, which are not modelled.
func inTrimSpace(e *Exec, fn *ssa.Function, a []Value) Value {
	e.note("summary:TrimSpace(ASCII)")
	w := e.win(a[0])
	off := int(e.pick(w.off))
	n := int(e.pick(w.len))
	lo, hi := 0, n
	for lo < hi && e.branch(isASCIISpace(e.ctx, w.b[off+lo])) {
		lo++
	}
	for hi > lo && e.branch(isASCIISpace(e.ctx, w.b[off+hi-1])) {
		hi--
	}
	return e.valFromWin(a[0], w.b, e.ctx.Int(int64(off+lo)), e.ctx.Int(int64(hi-lo)))
}

// ------------------------------------------------------------ fmt

func inSprintf(e *Exec, fn *ssa.Function, a []Value) Value {
	format := e.goString(a[0])
	var goArgs []interface{}
	var raw []Value
	allConc := true
	var sl *SliceV
	off, n := 0, 0
	if s, ok := a[1].(*SliceV); ok && !isNil(s) {
		sl = s
		off, n = e.sliceWindow(sl)
		for i := 0; i < n; i++ {
			raw = append(raw, sl.Arr.Elems[off+i])
			v, ok := e.fmtArg(sl.Arr.Elems[off+i])
			if !ok {
				allConc = false
			}
			goArgs = append(goArgs, v)
		}
	}
	if allConc {
		return e.constString(fmt.Sprintf(format, goArgs...))
	}
	if r, ok := e.sprintfSym(format, raw); ok {
		return r
	}
	return e.sprintfToken(format, sl, off, n)
}

// sprintfSym formats with symbolic string contents for the verb subset
// %s %v %d %x %q-free, flags '-' and '0', widths as digits or '*': string
// arguments have concrete lengths and symbolic bytes, integers are concrete, so
// the layout (padding, positions) is computed exactly and only the bytes stay
// symbolic. Arguments implementing String() are rendered through it.
func (e *Exec) sprintfSym(format string, args []Value) (Value, bool) {
	var out []*Term
	lit := func(s string) {
		for i := 0; i < len(s); i++ {
			out = append(out, e.ctx.BV(uint64(s[i]), 8))
		}
	}
	ai := 0
	next := func() (Value, bool) {
		if ai >= len(args) {
			return nil, false
		}
		v := args[ai]
		ai++
		return v, true
	}
	intArg := func(v Value) (int64, bool) {
		if iv, ok := v.(*IfaceV); ok && iv != nil {
			v = iv.Val
		}
		t, ok := v.(*Term)
		if !ok || !t.IsConst() {
			return 0, false
		}
		return t.SVal(), true
	}
	for i := 0; i < len(format); i++ {
		ch := format[i]
		if ch != '%' {
			out = append(out, e.ctx.BV(uint64(ch), 8))
			continue
		}
		i++
		if i >= len(format) {
			return nil, false
		}
		if format[i] == '%' {
			lit("%")
			continue
		}
		left, zero := false, false
		for i < len(format) && (format[i] == '-' || format[i] == '0') {
			if format[i] == '-' {
				left = true
			} else {
				zero = true
			}
			i++
		}
		width := -1
		if i < len(format) && format[i] == '*' {
			v, ok := next()
			if !ok {
				return nil, false
			}
			w, ok := intArg(v)
			if !ok {
				return nil, false
			}
			width = int(w)
			if width < 0 {
				left = true
				width = -width
			}
			i++
		} else {
			for i < len(format) && format[i] >= '0' && format[i] <= '9' {
				if width < 0 {
					width = 0
				}
				width = width*10 + int(format[i]-'0')
				i++
			}
		}
		if i >= len(format) {
			return nil, false
		}
		verb := format[i]
		v, ok := next()
		if !ok {
			return nil, false
		}
		var body []*Term
		switch verb {
		case 'd', 'x':
			n, ok := intArg(v)
			if !ok {
				return nil, false
			}
			var txt string
			if iv, isI := v.(*IfaceV); isI && iv != nil && !isSigned(iv.Typ) {
				if verb == 'd' {
					txt = fmt.Sprintf("%d", uint64(n))
				} else {
					txt = fmt.Sprintf("%x", uint64(n))
				}
			} else if verb == 'd' {
				txt = fmt.Sprintf("%d", n)
			} else {
				txt = fmt.Sprintf("%x", n)
			}
			for k := 0; k < len(txt); k++ {
				body = append(body, e.ctx.BV(uint64(txt[k]), 8))
			}
			if zero && !left && width > len(body) {
				pad := make([]*Term, width-len(body))
				for k := range pad {
					pad[k] = e.ctx.BV('0', 8)
				}
				body = append(pad, body...)
			}
		case 's', 'v':
			sv, ok := e.stringOf(v)
			if !ok {
				return nil, false
			}
			body = e.strBytes(sv)
		default:
			return nil, false
		}
		// width counts runes: concrete UTF-8 continuation bytes do not count;
		// symbolic bytes are taken as ASCII (the harnesses assume so)
		nrunes := 0
		for _, bt := range body {
			if bt.IsConst() && bt.Val&0xC0 == 0x80 {
				continue
			}
			nrunes++
		}
		if width > nrunes {
			pad := make([]*Term, width-nrunes)
			for k := range pad {
				pad[k] = e.ctx.BV(' ', 8)
			}
			if left {
				body = append(body, pad...)
			} else {
				body = append(pad, body...)
			}
		}
		out = append(out, body...)
	}
	if ai != len(args) {
		return nil, false
	}
	return e.mkString(out), true
}

// stringOf renders a %s argument: strings, and values with a String() method.
func (e *Exec) stringOf(v Value) (*StringV, bool) {
	iv, _ := v.(*IfaceV)
	if iv != nil {
		if s, ok := iv.Val.(*StringV); ok {
			if s.Tok != nil {
				return nil, false
			}
			return s, true
		}
		ms := e.eng.prog.MethodSets.MethodSet(iv.Typ)
		for i := 0; i < ms.Len(); i++ {
			if ms.At(i).Obj().Name() == "String" {
				r := e.callFunc(e.eng.prog.MethodValue(ms.At(i)), []Value{iv.Val}, nil)
				if s, ok := r.(*StringV); ok && s.Tok == nil {
					return s, true
				}
				return nil, false
			}
		}
		return nil, false
	}
	if s, ok := v.(*StringV); ok && s.Tok == nil {
		return s, true
	}
	return nil, false
}

// sprintfToken: formatting of symbolic arguments is an uninterpreted token
// (equal tokens iff equal format and equal argument terms).
func (e *Exec) sprintfToken(format string, sl *SliceV, off, n int) Value {
	// normal form: a concatenation of literal pieces and opaque atoms, so that
	// the same text built through different format strings compares equal
	var parts []interface{}
	ai := 0
	lit := ""
	flush := func() {
		if lit != "" {
			parts = append(parts, e.constString(lit))
			lit = ""
		}
	}
	simple := true
	for i := 0; i < len(format) && simple; i++ {
		ch := format[i]
		if ch != '%' {
			lit += string(ch)
			continue
		}
		i++
		if i >= len(format) {
			simple = false
			break
		}
		switch format[i] {
		case '%':
			lit += "%"
		case 's', 'v', 'd', 'x':
			if ai >= n {
				simple = false
				break
			}
			arg := sl.Arr.Elems[off+ai]
			ai++
			flush()
			p := e.opaquePart(arg)
			if t, ok := p.(*Term); ok {
				signed := true
				if iv, isI := arg.(*IfaceV); isI && iv != nil {
					signed = isSigned(iv.Typ)
				}
				switch {
				case format[i] == 'x':
					p = e.mkOpaque("hex", e.ctx.Zext(t, 64))
				case signed:
					p = e.mkOpaque("dec-s", e.ctx.Sext(t, 64))
				default:
					p = e.mkOpaque("dec-u", e.ctx.Zext(t, 64))
				}
			}
			parts = append(parts, p)
		default:
			simple = false
		}
	}
	if !simple || ai != n {
		var ps []interface{}
		for i := 0; i < n; i++ {
			ps = append(ps, e.opaquePart(sl.Arr.Elems[off+i]))
		}
		return e.mkOpaque("sprintf:"+format, ps...)
	}
	flush()
	return e.concatOpaque(parts)
}

// concatOpaque flattens nested concatenations and merges adjacent literals.
func (e *Exec) concatOpaque(parts []interface{}) *StringV {
	var flat []interface{}
	var add func(p interface{})
	add = func(p interface{}) {
		sv, ok := p.(*StringV)
		if !ok {
			flat = append(flat, p)
			return
		}
		if sv.Opq != nil && sv.Opq.Kind == "concat" {
			for _, q := range sv.Opq.Parts {
				add(q)
			}
			return
		}
		if s, ok := e.concreteString(sv); ok {
			if s == "" {
				return
			}
			if len(flat) > 0 {
				if prev, ok := flat[len(flat)-1].(*StringV); ok {
					if ps, ok := e.concreteString(prev); ok {
						flat[len(flat)-1] = e.constString(ps + s)
						return
					}
				}
			}
		}
		flat = append(flat, sv)
	}
	for _, p := range parts {
		add(p)
	}
	if len(flat) == 0 {
		return e.constString("")
	}
	if len(flat) == 1 {
		if sv, ok := flat[0].(*StringV); ok {
			return sv
		}
	}
	return e.mkOpaque("concat", flat...)
}

// opaquePart turns a formatting argument into an identity-carrying part.
func (e *Exec) opaquePart(v Value) interface{} {
	switch x := v.(type) {
	case *IfaceV:
		if x == nil {
			return e.ctx.Int(0)
		}
		if _, isStr := x.Val.(*StringV); !isStr {
			if sv, ok := e.stringOf(x); ok {
				return sv
			}
			// values with a String() method rendering to an opaque string
			ms := e.eng.prog.MethodSets.MethodSet(x.Typ)
			for i := 0; i < ms.Len(); i++ {
				if ms.At(i).Obj().Name() == "String" {
					if r, ok := e.callFunc(e.eng.prog.MethodValue(ms.At(i)), []Value{x.Val}, nil).(*StringV); ok {
						return r
					}
				}
			}
		}
		return e.opaquePart(x.Val)
	case *Term:
		if x.W == 0 {
			return e.ctx.Ite(x, e.ctx.Int(1), e.ctx.Int(0))
		}
		return x
	case *StringV:
		return x
	}
	panic(unsupported{fmt.Sprintf("opaque part of %T", v)})
}

func tokName(s string) string {
	var sb strings.Builder
	for _, r := range s {
		if r >= 'a' && r <= 'z' || r >= 'A' && r <= 'Z' || r >= '0' && r <= '9' {
			sb.WriteRune(r)
		} else {
			fmt.Fprintf(&sb, "_%x", r)
		}
	}
	return sb.String()
}

// tokenOf maps any printable value to a 64-bit term.
func (e *Exec) tokenOf(v Value) *Term {
	c := e.ctx
	switch x := v.(type) {
	case *IfaceV:
		if x == nil {
			return c.Int(0)
		}
		return e.tokenOf(x.Val)
	case *Term:
		if x.W == 0 {
			return c.Ite(x, c.Int(1), c.Int(0))
		}
		return c.Zext(x, 64)
	case *StringV:
		if x.Tok != nil {
			return x.Tok
		}
		if s, ok := e.concreteString(x); ok {
			return c.UF("strlit_"+tokName(s), 64)
		}
		// symbolic short string: pack bytes (up to 7) and length
		bs := e.strBytes(x)
		if len(bs) <= 7 {
			acc := c.Int(int64(len(bs)))
			for _, b := range bs {
				acc = c.BOr(c.Bin(OpShl, acc, c.Int(8)), c.Zext(b, 64))
			}
			return c.UF("strpack", 64, acc)
		}
	}
	panic(unsupported{fmt.Sprintf("token of %T", v)})
}

// ------------------------------------------------------------ sort

func inSortInts(e *Exec, fn *ssa.Function, a []Value) Value {
	s := a[0].(*SliceV)
	off, n := e.sliceWindow(s)
	if n < 2 {
		return nil
	}
	e.checkWrite(s.Arr.Obj)
	c := e.ctx
	el := s.Arr.Elems
	for i := 0; i < n; i++ {
		for j := 0; j+1 < n-i; j++ {
			x, y := el[off+j].(*Term), el[off+j+1].(*Term)
			sw := c.Slt(y, x)
			el[off+j], el[off+j+1] = c.Ite(sw, y, x), c.Ite(sw, x, y)
		}
	}
	return nil
}

const sortInsertionMax = 12

func inSortSort(e *Exec, fn *ssa.Function, a []Value) Value {
	iv := a[0].(*IfaceV)
	call := func(name string, args ...Value) Value {
		ms := e.eng.prog.MethodSets.MethodSet(iv.Typ)
		for i := 0; i < ms.Len(); i++ {
			if ms.At(i).Obj().Name() == name {
				return e.callFunc(e.eng.prog.MethodValue(ms.At(i)), append([]Value{iv.Val}, args...), nil)
			}
		}
		panic(unsupported{"sort.Interface method " + name})
	}
	n := int(e.pick(call("Len").(*Term)))
	if n > sortInsertionMax {
		e.note("bound-exceeded:sort")
		panic(pathEnd{"bound exceeded: sort.Sort beyond insertion-sort range"})
	}
	for i := 1; i < n; i++ {
		for j := i; j > 0; j-- {
			if !e.branch(call("Less", e.ctx.Int(int64(j)), e.ctx.Int(int64(j-1))).(*Term)) {
				break
			}
			call("Swap", e.ctx.Int(int64(j)), e.ctx.Int(int64(j-1)))
		}
	}
	return nil
}

func inSortSliceStable(e *Exec, fn *ssa.Function, a []Value) Value {
	s := a[0].(*IfaceV).Val.(*SliceV)
	less := a[1].(*FuncV)
	off, n := e.sliceWindow(s)
	lim := 20
	if fn.Name() == "Slice" {
		lim = sortInsertionMax
	}
	if n > lim {
		e.note("bound-exceeded:sort")
		panic(pathEnd{"bound exceeded: sort beyond insertion-sort range"})
	}
	if n > 1 {
		e.checkWrite(s.Arr.Obj)
	}
	el := s.Arr.Elems
	for i := 1; i < n; i++ {
		for j := i; j > 0; j-- {
			r := e.callFunc(less.Fn, []Value{e.ctx.Int(int64(j)), e.ctx.Int(int64(j - 1))}, less.Env).(*Term)
			if !e.branch(r) {
				break
			}
			el[off+j], el[off+j-1] = el[off+j-1], el[off+j]
		}
	}
	return nil
}

func inSortStrings(e *Exec, fn *ssa.Function, a []Value) Value {
	s := a[0].(*SliceV)
	off, n := e.sliceWindow(s)
	if n > sortInsertionMax {
		e.note("bound-exceeded:sort")
		panic(pathEnd{"bound exceeded: sort.Strings beyond insertion-sort range"})
	}
	if n > 1 {
		e.checkWrite(s.Arr.Obj)
	}
	el := s.Arr.Elems
	for i := 1; i < n; i++ {
		for j := i; j > 0; j-- {
			if !e.branch(e.strLess(el[off+j].(*StringV), el[off+j-1].(*StringV), false)) {
				break
			}
			el[off+j], el[off+j-1] = el[off+j-1], el[off+j]
		}
	}
	return nil
}

// ------------------------------------------------------------ strconv / url / utf8

func isHexT(c *Ctx, b *Term) *Term {
	return c.Or(c.And(c.Ule(c.BV('0', 8), b), c.Ule(b, c.BV('9', 8))),
		c.And(c.Ule(c.BV('a', 8), b), c.Ule(b, c.BV('f', 8))),
		c.And(c.Ule(c.BV('A', 8), b), c.Ule(b, c.BV('F', 8))))
}

func hexValT(c *Ctx, b *Term) *Term {
	d := c.Sub(b, c.BV('0', 8))
	lo := c.Add(c.Sub(b, c.BV('a', 8)), c.BV(10, 8))
	up := c.Add(c.Sub(b, c.BV('A', 8)), c.BV(10, 8))
	return c.Ite(c.Ule(b, c.BV('9', 8)), d, c.Ite(c.Ule(c.BV('a', 8), b), lo, up))
}

func isDigitT(c *Ctx, b *Term) *Term {
	return c.And(c.Ule(c.BV('0', 8), b), c.Ule(b, c.BV('9', 8)))
}

// inParseUint is exact on "0x"/"0X" + hex digits of any length (range error
// iff a digit above the low 16 is not zero), on decimal numbers of
// up to 19 digits without a leading zero (and "0"), on the empty string and on
// strings containing a byte that cannot occur in any Go integer literal;
// everything else (octal, binary, underscores, overflow) is over-approximated
// by "any value, any error". Only base 0 / bitSize 64 is modelled.
func inParseUint(e *Exec, fn *ssa.Function, a []Value) Value {
	c := e.ctx
	base, bits := a[1].(*Term), a[2].(*Term)
	if !base.IsConst() || !bits.IsConst() || base.SVal() != 0 || bits.SVal() != 64 {
		panic(unsupported{"strconv.ParseUint with base/bitSize other than 0/64"})
	}
	bs := e.strBytes(a[0].(*StringV))
	mkErr := func() Value { return e.newError("strconv.ParseUint") }
	n := len(bs)
	if n == 0 {
		return TupleV{c.Int(0), mkErr()}
	}
	// hex of any length: digits above the low 16 must all be zero
	if n >= 3 {
		cond := c.And(c.Eq(bs[0], c.BV('0', 8)), c.Or(c.Eq(bs[1], c.BV('x', 8)), c.Eq(bs[1], c.BV('X', 8))))
		for _, b := range bs[2:] {
			cond = c.And(cond, isHexT(c, b))
		}
		if e.branch(cond) {
			digits := bs[2:]
			if m := len(digits); m > 16 {
				over := c.False
				for _, b := range digits[:m-16] {
					over = c.Or(over, c.Ne(b, c.BV('0', 8)))
				}
				if e.branch(over) {
					return TupleV{c.BV(^uint64(0), 64), mkErr()}
				}
				digits = digits[m-16:]
			}
			v := c.Int(0)
			for _, b := range digits {
				v = c.BOr(c.Bin(OpShl, v, c.Int(4)), c.Zext(hexValT(c, b), 64))
			}
			return TupleV{v, (*IfaceV)(nil)}
		}
	}
	// decimal
	if n <= 19 {
		cond := c.True
		for _, b := range bs {
			cond = c.And(cond, isDigitT(c, b))
		}
		if n > 1 {
			cond = c.And(cond, c.Ne(bs[0], c.BV('0', 8)))
		}
		if e.branch(cond) {
			v := c.Int(0)
			for _, b := range bs {
				v = c.Add(c.Mul(v, c.Int(10)), c.Zext(c.Sub(b, c.BV('0', 8)), 64))
			}
			return TupleV{v, (*IfaceV)(nil)}
		}
	}
	// a byte outside the literal alphabet: certain syntax error
	bad := c.False
	for _, b := range bs {
		ok := c.Or(isHexT(c, b), c.Eq(b, c.BV('x', 8)), c.Eq(b, c.BV('X', 8)), c.Eq(b, c.BV('o', 8)), c.Eq(b, c.BV('O', 8)), c.Eq(b, c.BV('_', 8)))
		bad = c.Or(bad, c.Not(ok))
	}
	if e.branch(bad) {
		return TupleV{c.Int(0), mkErr()}
	}
	e.note("summary:ParseUint over-approximated")
	v := e.fresh("ParseUint.val", 64)
	if e.branch(e.fresh("ParseUint.err", 0)) {
		return TupleV{v, mkErr()}
	}
	return TupleV{v, (*IfaceV)(nil)}
}

// urlUnescape models net/url.QueryUnescape / PathUnescape: %XX decoding, '+' to
// space in query mode, error on a malformed escape. It forks on "is this byte a
// '%'" where that is not decided by constants or the path condition.
func (e *Exec) urlUnescape(s *StringV, query bool) Value {
	c := e.ctx
	bs := e.strBytes(s)
	var out []*Term
	for i := 0; i < len(bs); {
		b := bs[i]
		if e.branch(c.Eq(b, c.BV('%', 8))) {
			if i+2 >= len(bs) {
				return TupleV{e.constString(""), e.newError("url.EscapeError")}
			}
			okHex := c.And(isHexT(c, bs[i+1]), isHexT(c, bs[i+2]))
			if !e.branch(okHex) {
				return TupleV{e.constString(""), e.newError("url.EscapeError")}
			}
			v := c.BOr(c.Bin(OpShl, hexValT(c, bs[i+1]), c.BV(4, 8)), hexValT(c, bs[i+2]))
			out = append(out, v)
			i += 3
			continue
		}
		if query {
			out = append(out, c.Ite(c.Eq(b, c.BV('+', 8)), c.BV(' ', 8), b))
		} else {
			out = append(out, b)
		}
		i++
	}
	return TupleV{e.mkString(out), (*IfaceV)(nil)}
}

// inDecodeRune / inToUpper: exact for ASCII; for bytes >= 0x80 the rune is an
// unconstrained value (they only feed Func.IsExported, which no property names).
func inDecodeRune(e *Exec, fn *ssa.Function, a []Value) Value {
	c := e.ctx
	s := a[0].(*StringV)
	if s.Len.IsConst() && s.Len.SVal() == 0 {
		return TupleV{c.BV(0xFFFD, 32), c.Int(0)}
	}
	if !s.Len.IsConst() {
		if !e.branch(c.Slt(c.Int(0), s.Len)) {
			return TupleV{c.BV(0xFFFD, 32), c.Int(0)}
		}
	}
	b := e.byteAt(s.B, s.Off)
	if b.IsConst() && b.Val < 0x80 {
		return TupleV{c.Zext(b, 32), c.Int(1)}
	}
	ascii := c.Ult(b, c.BV(0x80, 8))
	r := c.Ite(ascii, c.Zext(b, 32), e.fresh("rune", 32))
	size := c.Ite(ascii, c.Int(1), e.fresh("runesize", 64))
	return TupleV{r, size}
}

func inToUpper(e *Exec, fn *ssa.Function, a []Value) Value {
	c := e.ctx
	r := a[0].(*Term)
	lower := c.And(c.Ule(c.BV('a', 32), r), c.Ule(r, c.BV('z', 32)))
	ascii := c.Ult(r, c.BV(0x80, 32))
	return c.Ite(lower, c.Sub(r, c.BV(32, 32)), c.Ite(ascii, r, e.fresh("toupper", 32)))
}

// ------------------------------------------------------------ sync.Pool
//
// Get returns either an object handed to Put earlier on this path (the most
// recent one, as the per-P private slot does) or, as after a GC or on another
// P, a new one from New: both outcomes are explored.

func poolNew(e *Exec, fn *ssa.Function, recv Value) Value {
	st := fn.Signature.Recv().Type().(*types.Pointer).Elem().Underlying().(*types.Struct)
	sv := (*recv.(*Pointer).Slot).(*StructV)
	for i := 0; i < st.NumFields(); i++ {
		if st.Field(i).Name() == "New" {
			if f, ok := sv.Fields[i].(*FuncV); ok && f != nil && f.Fn != nil {
				return e.callFunc(f.Fn, nil, f.Env)
			}
		}
	}
	return (*IfaceV)(nil)
}

func inPoolGet(e *Exec, fn *ssa.Function, a []Value) Value {
	key := a[0].(*Pointer).Obj
	if items := e.pools[key]; len(items) > 0 {
		if e.branch(e.fresh("sync.Pool.reuse", 0)) {
			v := items[len(items)-1]
			e.pools[key] = items[:len(items)-1]
			return v
		}
	}
	return poolNew(e, fn, a[0])
}

func inPoolPut(e *Exec, fn *ssa.Function, a []Value) Value {
	key := a[0].(*Pointer).Obj
	if iv, ok := a[1].(*IfaceV); ok && iv == nil {
		return nil
	}
	e.pools[key] = append(e.pools[key], a[1])
	return nil
}

func inURLEscapedPath(e *Exec, fn *ssa.Function, a []Value) Value {
	st := fn.Signature.Recv().Type().(*types.Pointer).Elem().Underlying().(*types.Struct)
	sv := (*a[0].(*Pointer).Slot).(*StructV)
	u := url.URL{}
	for i := 0; i < st.NumFields(); i++ {
		switch st.Field(i).Name() {
		case "Path":
			u.Path = e.goString(sv.Fields[i])
		case "RawPath":
			u.RawPath = e.goString(sv.Fields[i])
		}
	}
	return e.constString(u.EscapedPath())
}

func inSplitN(e *Exec, fn *ssa.Function, a []Value) Value {
	n := a[2].(*Term)
	if !n.IsConst() {
		panic(unsupported{"strings.SplitN with a symbolic count"})
	}
	parts := strings.SplitN(e.goString(a[0]), e.goString(a[1]), int(n.SVal()))
	sl := e.newSlice(types.Typ[types.String], len(parts), len(parts), "strings.SplitN")
	for i, p := range parts {
		sl.Arr.Elems[i] = e.constString(p)
	}
	return sl
}

// ------------------------------------------------------------ strings.Builder
// The accumulated bytes are kept per builder (keyed by its address); the
// builder's own fields (copy check, unsafe string view) are not interpreted.

func inBuilderWrite(e *Exec, fn *ssa.Function, a []Value) Value {
	k := a[0].(*Pointer).Slot
	var bs []*Term
	switch x := a[1].(type) {
	case *StringV:
		bs = e.strBytes(x)
	case *SliceV:
		bs = e.sliceBytes(x)
	}
	e.builders[k] = append(e.builders[k], bs...)
	return TupleV{e.ctx.Int(int64(len(bs))), (*IfaceV)(nil)}
}

func inBuilderWriteByte(e *Exec, fn *ssa.Function, a []Value) Value {
	k := a[0].(*Pointer).Slot
	e.builders[k] = append(e.builders[k], a[1].(*Term))
	return (*IfaceV)(nil)
}

func inBuilderWriteRune(e *Exec, fn *ssa.Function, a []Value) Value {
	k := a[0].(*Pointer).Slot
	r := a[1].(*Term)
	if !r.IsConst() {
		panic(unsupported{"strings.Builder.WriteRune with a symbolic rune"})
	}
	enc := string(rune(r.SVal()))
	for i := 0; i < len(enc); i++ {
		e.builders[k] = append(e.builders[k], e.ctx.BV(uint64(enc[i]), 8))
	}
	return TupleV{e.ctx.Int(int64(len(enc))), (*IfaceV)(nil)}
}
