package main

import (
	"fmt"
	"go/ast"
	"go/token"
	"go/types"
	"os"
	"path/filepath"
	"runtime/debug"
	"sort"
	"strconv"
	"strings"
	"sync"
	"time"

	"golang.org/x/tools/go/packages"
	"golang.org/x/tools/go/ssa"
	"golang.org/x/tools/go/ssa/ssautil"
)

type Engine struct {
	repo                   string
	verifDir               string
	prog                   *ssa.Program
	fset                   *token.FileSet
	pkgs                   map[string]*ssa.Package // by import path
	ppkgs                  map[string]*packages.Package
	errType                types.Type
	known                  map[string]bool
	overlay                map[string][]byte
	ovFiles                map[string]string // virtual -> real path
	LoadTime               time.Duration
	validationRuns         int
	fnNames                sync.Map
	BufSize                int
	lastPaths, lastQueries int
	lastHarnesses          []string
	reachMu                sync.Mutex
	reachSet               map[string]bool
}

func (g *Engine) isReached(h, l string) bool {
	g.reachMu.Lock()
	defer g.reachMu.Unlock()
	return g.reachSet[h+"|"+l]
}

func (g *Engine) setReached(h, l string) {
	g.reachMu.Lock()
	defer g.reachMu.Unlock()
	if g.reachSet == nil {
		g.reachSet = map[string]bool{}
	}
	g.reachSet[h+"|"+l] = true
}

// fnName is fn.String() (of the generic origin, if any), cached.
func (g *Engine) fnName(fn *ssa.Function) string {
	if v, ok := g.fnNames.Load(fn); ok {
		return v.(string)
	}
	name := fn.String()
	if fn.Origin() != nil {
		name = fn.Origin().String()
	}
	g.fnNames.Store(fn, name)
	return name
}

func (g *Engine) isRepoPkg(path string) bool {
	return strings.HasPrefix(path, "github.com/maruel/panicparse")
}

func (g *Engine) isHarnessRT(fn *ssa.Function) bool {
	if fn.Pos() == token.NoPos {
		return false
	}
	return strings.HasPrefix(filepath.Base(g.fset.Position(fn.Pos()).Filename), "zz_verif_rt")
}

func (g *Engine) pos(p token.Pos) string {
	if p == token.NoPos {
		return "-"
	}
	ps := g.fset.Position(p)
	return fmt.Sprintf("%s:%d", filepath.Base(ps.Filename), ps.Line)
}

// Load parses and type-checks the repo's current working tree with the harness
// files injected by overlay, and builds SSA for everything.
func Load(repo, verifDir string, pkgDirs []string, bufSize int) (*Engine, error) {
	t0 := time.Now()
	g := &Engine{BufSize: bufSize, repo: repo, verifDir: verifDir, pkgs: map[string]*ssa.Package{}, ppkgs: map[string]*packages.Package{},
		known: map[string]bool{}, overlay: map[string][]byte{}, ovFiles: map[string]string{}}
	for _, pd := range pkgDirs {
		hdir := filepath.Join(verifDir, "harness", pd)
		ents, _ := os.ReadDir(hdir)
		for _, en := range ents {
			if !strings.HasSuffix(en.Name(), ".go") || strings.HasSuffix(en.Name(), "_test.go") {
				continue
			}
			b, err := os.ReadFile(filepath.Join(hdir, en.Name()))
			if err != nil {
				return nil, err
			}
			virt := filepath.Join(repo, pd, "zz_verif_"+en.Name())
			g.overlay[virt] = b
			g.ovFiles[virt] = filepath.Join(hdir, en.Name())
		}
	}
	// Reduced reader buffer: the overlay copy of the *current* reader.go has
	// its array length textually replaced (every other size reference in that
	// file is len(r.buf)). If the expected text is not there the run is
	// inconclusive rather than silently unreduced.
	if g.BufSize > 0 {
		rp := filepath.Join(repo, "stack", "reader.go")
		b, err := os.ReadFile(rp)
		if err != nil {
			return nil, err
		}
		const marker = "buf  [16 * 1024]byte"
		if strings.Count(string(b), marker) != 1 {
			return nil, fmt.Errorf("reader.go: buffer declaration %q not found exactly once; cannot apply the reduced-buffer bound", marker)
		}
		nb := strings.Replace(string(b), marker, fmt.Sprintf("buf  [%d]byte", g.BufSize), 1)
		g.overlay[rp] = []byte(nb)
		out := filepath.Join(verifDir, "out", "overlay")
		os.MkdirAll(out, 0o755)
		real := filepath.Join(out, fmt.Sprintf("reader_buf%d.go", g.BufSize))
		os.WriteFile(real, []byte(nb), 0o644)
		g.ovFiles[rp] = real
	}
	cfg := &packages.Config{
		Mode:       packages.LoadAllSyntax,
		Dir:        repo,
		BuildFlags: []string{"-tags=verif"},
		Overlay:    g.overlay,
		Env:        append(os.Environ(), "GOFLAGS=-mod=mod", "GOPROXY=off", "GOSUMDB=off", "GOTOOLCHAIN=local"),
	}
	var pats []string
	for _, pd := range pkgDirs {
		pats = append(pats, "./"+pd)
	}
	pkgs, err := packages.Load(cfg, pats...)
	if err != nil {
		return nil, err
	}
	nerr := 0
	packages.Visit(pkgs, nil, func(p *packages.Package) {
		for _, e := range p.Errors {
			if g.isRepoPkg(p.PkgPath) {
				fmt.Fprintf(os.Stderr, "load error: %v\n", e)
				nerr++
			}
		}
	})
	if nerr > 0 {
		return nil, fmt.Errorf("%d load errors", nerr)
	}
	prog, _ := ssautil.AllPackages(pkgs, ssa.InstantiateGenerics)
	prog.Build()
	g.prog = prog
	g.fset = prog.Fset
	for _, p := range prog.AllPackages() {
		g.pkgs[p.Pkg.Path()] = p
	}
	packages.Visit(pkgs, nil, func(p *packages.Package) { g.ppkgs[p.PkgPath] = p })
	g.errType = types.Universe.Lookup("error").Type()
	g.LoadTime = time.Since(t0)
	return g, nil
}

// ------------------------------------------------------------- harnesses

type Param struct {
	Name string
	Vals []int64
}

type Harness struct {
	Name         string
	Prop         string
	Fn           *ssa.Function
	Params       []Param
	Summarize    []string
	Contracts    []string
	Lazy         bool
	MaxDec       int
	MaxSteps     int
	Tiers        string // "" = both
	Expect       string // "" | "violation" (self-test harnesses)
	Doc          string
	ReplayIters  int
	BufSensitive bool
	RealSize     bool
}

func parseRange(s string) []int64 {
	var out []int64
	for _, part := range strings.Split(s, ",") {
		if i := strings.Index(part, ".."); i >= 0 {
			lo, _ := strconv.ParseInt(part[:i], 10, 64)
			hi, _ := strconv.ParseInt(part[i+2:], 10, 64)
			for v := lo; v <= hi; v++ {
				out = append(out, v)
			}
		} else if part != "" {
			v, _ := strconv.ParseInt(part, 10, 64)
			out = append(out, v)
		}
	}
	return out
}

// Harnesses finds functions carrying //verif: directives.
func (g *Engine) Harnesses(tier string) []*Harness {
	var out []*Harness
	for path, pp := range g.ppkgs {
		if !g.isRepoPkg(path) {
			continue
		}
		sp := g.pkgs[path]
		for _, file := range pp.Syntax {
			fname := g.fset.Position(file.Pos()).Filename
			if !strings.HasPrefix(filepath.Base(fname), "zz_verif_") {
				continue
			}
			for _, d := range file.Decls {
				fd, ok := d.(*ast.FuncDecl)
				if !ok || fd.Doc == nil || fd.Recv != nil {
					continue
				}
				h := &Harness{Name: fd.Name.Name}
				isH := false
				pvals := map[string][]int64{}
				for _, cm := range fd.Doc.List {
					txt := strings.TrimSpace(strings.TrimPrefix(cm.Text, "//"))
					if !strings.HasPrefix(txt, "verif:") {
						if strings.HasPrefix(cm.Text, "// ") {
							h.Doc += strings.TrimPrefix(cm.Text, "// ") + " "
						}
						continue
					}
					fields := strings.Fields(strings.TrimPrefix(txt, "verif:"))
					if len(fields) == 0 {
						continue
					}
					switch fields[0] {
					case "prop":
						isH = true
						h.Prop = fields[1]
					case "param":
						// param NAME RANGE | param NAME quick=RANGE thorough=RANGE
						name := fields[1]
						for _, f := range fields[2:] {
							if strings.HasPrefix(f, "quick=") {
								if tier == "quick" {
									pvals[name] = parseRange(f[6:])
								}
							} else if strings.HasPrefix(f, "thorough=") {
								if tier == "thorough" {
									pvals[name] = parseRange(f[9:])
								}
							} else {
								pvals[name] = parseRange(f)
							}
						}
					case "summarize":
						for _, f := range fields[1:] {
							h.Summarize = append(h.Summarize, strings.Trim(f, ","))
						}
					case "contract":
						for _, f := range fields[1:] {
							h.Contracts = append(h.Contracts, strings.Trim(f, ","))
						}
					case "lazy":
						h.Lazy = true
					case "maxdec":
						h.MaxDec, _ = strconv.Atoi(fields[1])
					case "maxsteps":
						h.MaxSteps, _ = strconv.Atoi(fields[1])
					case "tier":
						h.Tiers = fields[1]
					case "expect":
						h.Expect = fields[1]
					case "bufsensitive":
						h.BufSensitive = true
					case "realsize":
						h.RealSize = true
					case "replay-iters":
						h.ReplayIters, _ = strconv.Atoi(fields[1])
					}
				}
				if !isH {
					continue
				}
				if h.Tiers != "" && h.Tiers != tier {
					continue
				}
				h.Fn = sp.Func(fd.Name.Name)
				if h.Fn == nil {
					continue
				}
				for _, p := range h.Fn.Params {
					vals, ok := pvals[p.Name()]
					if !ok {
						fmt.Fprintf(os.Stderr, "harness %s: no values for parameter %s\n", h.Name, p.Name())
						vals = []int64{0}
					}
					h.Params = append(h.Params, Param{p.Name(), vals})
				}
				out = append(out, h)
			}
		}
	}
	sort.Slice(out, func(i, j int) bool { return out[i].Name < out[j].Name })
	return out
}

func (g *Engine) qualify(names []string, pkgPath string) map[string]bool {
	m := map[string]bool{}
	for _, n := range names {
		// "(*T).m" -> "(*pkg.T).m"; "f" -> "pkg.f"; names containing a slash or dot-qualified package are kept.
		switch {
		case strings.HasPrefix(n, "(*"):
			m["(*"+pkgPath+"."+n[2:]] = true
		case strings.HasPrefix(n, "("):
			m["("+pkgPath+"."+n[1:]] = true
		case strings.Contains(n, "/") || strings.Count(n, ".") > 0 && !strings.Contains(n, "$"):
			m[n] = true
		default:
			m[pkgPath+"."+n] = true
		}
	}
	return m
}

// ------------------------------------------------------------- driver

type Instance struct {
	H    *Harness
	Args []int64
}

func (in Instance) String() string {
	var parts []string
	for i, p := range in.H.Params {
		parts = append(parts, fmt.Sprintf("%s=%d", p.Name, in.Args[i]))
	}
	return in.H.Name + "(" + strings.Join(parts, ",") + ")"
}

func instances(h *Harness) []Instance {
	out := []Instance{{H: h}}
	for _, p := range h.Params {
		var nx []Instance
		for _, in := range out {
			for _, v := range p.Vals {
				nx = append(nx, Instance{H: h, Args: append(append([]int64{}, in.Args...), v)})
			}
		}
		out = nx
	}
	return out
}

type task struct {
	inst   int
	script []int64
}

type PathResult struct {
	alts     [][]int64
	viol     []Violation
	reached  map[string]map[string]uint64
	notes    map[string]int
	globalWr map[string]bool
	end      string
	steps    int
	inputs   []InputVar
	unsupp   string
	crash    string
	pcSize   int
	asserts  int
}

type HarnessResult struct {
	H            *Harness
	Instances    int
	Paths        int
	Steps        int
	Violations   []FoundViolation
	Reached      map[string]map[string]uint64
	ReachedInst  map[string]string
	ReachedArgs  map[string][]int64
	Notes        map[string]int
	GlobalWrites map[string]bool
	Unsupported  map[string]int
	Crashes      map[string]int
	Ends         map[string]int
	Queries      int
	Sat, Unsat   int
	Unknown      int
	SolverTime   time.Duration
	Wall         time.Duration
	SolverErrors []string
	Funcs        map[string]int
}

type FoundViolation struct {
	Violation
	Instance Instance
}

type worker struct {
	ctx                   *Ctx
	sol                   *Solver
	paths                 int
	q, nsat, nunsat, nunk int
	stime                 time.Duration
	errs                  []string
	shared                *sharedCaches
}

func (w *worker) retire() {
	if w.sol == nil {
		return
	}
	w.q += w.sol.Queries
	w.nsat += w.sol.NSat
	w.nunsat += w.sol.NUnsat
	w.nunk += w.sol.NUnk
	w.stime += w.sol.Time
	w.errs = append(w.errs, w.sol.Errors...)
	w.sol.Close()
	w.sol = nil
}

func (g *Engine) runPath(w *worker, in Instance, script []int64, solverKind string, timeoutMs int) (res PathResult) {
	if w.ctx == nil || w.paths > 300 || w.ctx.next > 800_000 {
		w.retire()
		w.shared = &sharedCaches{unsat: map[int][][]int{}}
		w.ctx = NewCtx()
		w.sol = NewSolver(w.ctx, solverKind, timeoutMs)
		if lf := os.Getenv("GOSMT_SMTLOG"); lf != "" {
			f, _ := os.Create(fmt.Sprintf("%s.%p", lf, w))
			w.sol.Log = f
		}
		w.paths = 0
	}
	w.paths++
	h := in.H
	pkgPath := h.Fn.Pkg.Pkg.Path()
	cfg := &RunCfg{MaxSteps: 5_000_000, MaxDecisions: 4000, MaxEnum: 4096,
		Summarize: g.qualify(h.Summarize, pkgPath), Contracts: g.qualify(h.Contracts, pkgPath), Lazy: h.Lazy}
	if h.MaxDec > 0 {
		cfg.MaxDecisions = h.MaxDec
	}
	if h.MaxSteps > 0 {
		cfg.MaxSteps = h.MaxSteps
	}
	e := &Exec{eng: g, ctx: w.ctx, sol: w.sol, src: &decisionSrc{script: append([]int64{}, script...)},
		globs: map[*ssa.Global]*Pointer{}, pools: map[*Object][]Value{}, builders: map[*Value][]*Term{}, extErr: map[string]*IfaceV{}, symSeq: map[string]int{},
		reached: map[string]bool{}, reachModel: map[string]map[string]uint64{}, notes: map[string]int{},
		globalWr: map[string]bool{}, impure: map[*ssa.Function]bool{}, cfg: cfg, oblCache: map[int][][]int{}, hname: h.Name, shared: w.shared, sumBase: -1}
	for _, pm := range w.shared.models {
		pm.upTo, pm.dead = 0, false
	}
	e.models = w.shared.models
	if cfg.Lazy {
		e.lazy = 1
	}
	defer func() {
		if r := recover(); r != nil {
			switch x := r.(type) {
			case pathEnd:
				res.end = x.reason
			case unsupported:
				res.unsupp = x.what + " @ " + e.where()
				res.end = "unsupported"
			case notPure:
				res.unsupp = "notPure escaped: " + x.what
				res.end = "unsupported"
			default:
				res.crash = fmt.Sprintf("%v @ %s [%s]", r, e.where(), crashFrames())
				res.end = "crash"
				if os.Getenv("GOSMT_DEBUG") != "" {
					panic(r)
				}
			}
		}
		func() {
			defer func() {
				if r := recover(); r != nil {
					res.crash = fmt.Sprintf("flush: %v", r)
				}
			}()
			e.flushObligations()
		}()
		res.alts = e.src.alts
		res.viol = e.viol
		res.reached = e.reachModel
		res.notes = e.notes
		res.globalWr = e.globalWr
		res.steps = e.steps
		res.inputs = e.inputs
		res.pcSize = len(e.pc)
	}()
	// package initialisation (data globals, regexps) is executed concretely first
	e.epoch = 1
	if initFn := h.Fn.Pkg.Func("init"); initFn != nil {
		e.run(initFn, nil, nil)
	}
	e.initDone = true
	e.epoch = 2
	args := make([]Value, len(in.Args))
	for i, a := range in.Args {
		args[i] = e.ctx.BV(uint64(a), typeWidthOr64(h.Fn.Params[i].Type()))
	}
	e.run(h.Fn, args, nil)
	res.end = "ok"
	return
}

func typeWidthOr64(t types.Type) int {
	w := typeWidth(t)
	if w < 0 {
		return 64
	}
	return w
}

type RunOpts struct {
	Workers    int
	Solver     string
	TimeoutMs  int
	MaxViol    int
	Verbose    bool
	MaxPaths   int
	InstFilter string
}

func (g *Engine) RunHarness(h *Harness, opts RunOpts) *HarnessResult {
	t0 := time.Now()
	insts := instances(h)
	if opts.InstFilter != "" {
		var keep []Instance
		for _, in := range insts {
			if strings.Contains(in.String(), opts.InstFilter) {
				keep = append(keep, in)
			}
		}
		insts = keep
	}
	hr := &HarnessResult{H: h, Instances: len(insts), Reached: map[string]map[string]uint64{}, ReachedInst: map[string]string{}, ReachedArgs: map[string][]int64{},
		Notes: map[string]int{}, GlobalWrites: map[string]bool{}, Unsupported: map[string]int{}, Crashes: map[string]int{}, Ends: map[string]int{}}
	var mu sync.Mutex
	cond := sync.NewCond(&mu)
	var queue []task
	for i := range insts {
		queue = append(queue, task{inst: i})
	}
	active := 0
	stop := false
	var wg sync.WaitGroup
	for wi := 0; wi < opts.Workers; wi++ {
		wg.Add(1)
		go func() {
			defer wg.Done()
			w := &worker{}
			defer func() {
				w.retire()
				mu.Lock()
				hr.Queries += w.q
				hr.Sat += w.nsat
				hr.Unsat += w.nunsat
				hr.Unknown += w.nunk
				hr.SolverTime += w.stime
				hr.SolverErrors = append(hr.SolverErrors, w.errs...)
				mu.Unlock()
			}()
			for {
				mu.Lock()
				for len(queue) == 0 && active > 0 && !stop {
					cond.Wait()
				}
				if stop || (len(queue) == 0 && active == 0) {
					mu.Unlock()
					cond.Broadcast()
					return
				}
				// LIFO keeps the frontier small (depth-first)
				t := queue[len(queue)-1]
				queue = queue[:len(queue)-1]
				active++
				mu.Unlock()

				res := g.runPath(w, insts[t.inst], t.script, opts.Solver, opts.TimeoutMs)
				if res.crash != "" && os.Getenv("GOSMT_NORETRY") == "" {
					// an engine panic: re-execute the same decision script once on a
					// fresh term context and solver process; a second panic is final.
					// (The retry is reported as a note in the evidence.)
					first := res.crash
					w.paths = 1 << 30 // forces runPath to retire context and solver
					res = g.runPath(w, insts[t.inst], t.script, opts.Solver, opts.TimeoutMs)
					if res.notes == nil {
						res.notes = map[string]int{}
					}
					res.notes["engine-panic-retried:"+first]++
				}

				mu.Lock()
				active--
				hr.Paths++
				hr.Steps += res.steps
				hr.Ends[res.end]++
				for _, a := range res.alts {
					queue = append(queue, task{inst: t.inst, script: a})
				}
				for _, v := range res.viol {
					hr.Violations = append(hr.Violations, FoundViolation{v, insts[t.inst]})
				}
				for l, m := range res.reached {
					if _, ok := hr.Reached[l]; !ok {
						hr.Reached[l] = m
						hr.ReachedInst[l] = insts[t.inst].String()
						hr.ReachedArgs[l] = insts[t.inst].Args
					}
				}
				for k, n := range res.notes {
					hr.Notes[k] += n
				}
				for k := range res.globalWr {
					hr.GlobalWrites[k] = true
				}
				if res.unsupp != "" {
					hr.Unsupported[res.unsupp]++
				}
				if res.crash != "" {
					hr.Crashes[res.crash]++
				}
				if opts.MaxViol > 0 && len(hr.Violations) >= opts.MaxViol {
					stop = true
				}
				if opts.MaxPaths > 0 && hr.Paths >= opts.MaxPaths {
					stop = true
					hr.Notes["bound-exceeded:paths"]++
				}
				if opts.Verbose && hr.Paths%500 == 0 {
					fmt.Fprintf(os.Stderr, "  [%s] paths=%d queue=%d viol=%d\n", h.Name, hr.Paths, len(queue), len(hr.Violations))
				}
				mu.Unlock()
				cond.Broadcast()
			}
		}()
	}
	wg.Wait()
	hr.Wall = time.Since(t0)
	return hr
}

// crashFrames: the innermost engine frames of the current panic (for the
// inconclusive report).
func crashFrames() string {
	var out []string
	for _, l := range strings.Split(string(debug.Stack()), "\n") {
		if strings.HasPrefix(l, "main.") && !strings.HasPrefix(l, "main.crashFrames") && !strings.Contains(l, "runPath.func") {
			if i := strings.LastIndexByte(l, '('); i > 0 {
				l = l[:i]
			}
			out = append(out, l)
			if len(out) == 4 {
				break
			}
		}
	}
	return strings.Join(out, " < ")
}
