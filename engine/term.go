package main

// Hash-consed term DAG over Bool and fixed-width bit-vectors, with constant
// folding and the handful of rewrites that keep ite-chains over literal bytes
// small. One Ctx per worker (no locking).

import (
	"fmt"
	"math/bits"
	"sort"
	"strconv"
	"strings"
)

type Op uint8

const (
	OpConst Op = iota
	OpVar
	OpNot
	OpAnd
	OpOr
	OpIte
	OpEq
	OpAdd
	OpSub
	OpMul
	OpUDiv
	OpURem
	OpSDiv
	OpSRem
	OpBAnd
	OpBOr
	OpBXor
	OpShl
	OpLshr
	OpAshr
	OpBNot
	OpUlt
	OpUle
	OpSlt
	OpSle
	OpZext
	OpSext
	OpExtract // val = lo; width = W
	OpUF      // uninterpreted function application: name, args
)

var opNames = map[Op]string{
	OpNot: "not", OpAnd: "and", OpOr: "or", OpIte: "ite", OpEq: "=",
	OpAdd: "bvadd", OpSub: "bvsub", OpMul: "bvmul", OpUDiv: "bvudiv", OpURem: "bvurem",
	OpSDiv: "bvsdiv", OpSRem: "bvsrem", OpBAnd: "bvand", OpBOr: "bvor", OpBXor: "bvxor",
	OpShl: "bvshl", OpLshr: "bvlshr", OpAshr: "bvashr", OpBNot: "bvnot",
	OpUlt: "bvult", OpUle: "bvule", OpSlt: "bvslt", OpSle: "bvsle",
}

// Term is an immutable node. W == 0 means Bool, otherwise a bit-vector of
// width W (1..64).
type Term struct {
	Op   Op
	W    int
	Args []*Term
	Val  uint64 // OpConst value (Bool: 0/1); OpExtract: lo bit
	Name string // OpVar / OpUF
	ID   int
	ct   int8 // const-tree flag: 0 unknown, 1 ite-DAG over constants, 2 not
}

// isConstTree reports whether t is a constant or an ite-DAG whose leaves are
// all constants (a "guarded value set").
func (t *Term) isConstTree() bool {
	if t.ct != 0 {
		return t.ct == 1
	}
	switch {
	case t.Op == OpConst:
		t.ct = 1
	case t.Op == OpIte && t.W != 0 && t.Args[1].isConstTree() && t.Args[2].isConstTree():
		t.ct = 1
	default:
		t.ct = 2
	}
	return t.ct == 1
}

// mapLeaves rebuilds a const-tree with f applied to every leaf constant.
func (c *Ctx) mapLeaves(t *Term, f func(*Term) *Term, memo map[int]*Term) *Term {
	if t.Op == OpConst {
		return f(t)
	}
	if r, ok := memo[t.ID]; ok {
		return r
	}
	r := c.Ite(t.Args[0], c.mapLeaves(t.Args[1], f, memo), c.mapLeaves(t.Args[2], f, memo))
	memo[t.ID] = r
	return r
}

// LeafValues returns the distinct leaf constants of a const-tree (cached).
func (c *Ctx) LeafValues(t *Term) []uint64 {
	if v, ok := c.leafCache[t.ID]; ok {
		return v
	}
	seen := map[int]bool{}
	vals := map[uint64]bool{}
	var walk func(x *Term)
	walk = func(x *Term) {
		if seen[x.ID] {
			return
		}
		seen[x.ID] = true
		if x.Op == OpConst {
			vals[x.Val] = true
			return
		}
		walk(x.Args[1])
		walk(x.Args[2])
	}
	walk(t)
	out := make([]uint64, 0, len(vals))
	for v := range vals {
		out = append(out, v)
	}
	sort.Slice(out, func(i, j int) bool { return out[i] < out[j] })
	c.leafCache[t.ID] = out
	return out
}

const treeProductMax = 4096

// liftBin applies a binary operation leaf-wise when both operands are
// const-trees (at least one of them not a plain constant).
func (c *Ctx) liftBin(a, b *Term, f func(x, y *Term) *Term) (*Term, bool) {
	if a.IsConst() && b.IsConst() {
		return nil, false
	}
	if !a.isConstTree() || !b.isConstTree() {
		return nil, false
	}
	if b.IsConst() {
		return c.mapLeaves(a, func(x *Term) *Term { return f(x, b) }, map[int]*Term{}), true
	}
	if a.IsConst() {
		return c.mapLeaves(b, func(y *Term) *Term { return f(a, y) }, map[int]*Term{}), true
	}
	va, vb := c.LeafValues(a), c.LeafValues(b)
	if len(va)*len(vb) > treeProductMax {
		return nil, false
	}
	// one rebuilt copy of b per distinct leaf value of a
	perX := map[uint64]*Term{}
	return c.mapLeaves(a, func(x *Term) *Term {
		if r, ok := perX[x.Val]; ok {
			return r
		}
		r := c.mapLeaves(b, func(y *Term) *Term { return f(x, y) }, map[int]*Term{})
		perX[x.Val] = r
		return r
	}, map[int]*Term{}), true
}

type tkey struct {
	op      Op
	w       int
	val     uint64
	name    string
	a, b, c int
}

type Ctx struct {
	table map[tkey]*Term
	next  int
	True  *Term
	False *Term
	// UF signatures: name -> (arg widths, result width)
	ufs       map[string][]int
	leafCache map[int][]uint64
}

func NewCtx() *Ctx {
	c := &Ctx{table: map[tkey]*Term{}, ufs: map[string][]int{}, leafCache: map[int][]uint64{}}
	c.True = c.mk(OpConst, 0, 1, "", nil)
	c.False = c.mk(OpConst, 0, 0, "", nil)
	return c
}

func (c *Ctx) mk(op Op, w int, val uint64, name string, args []*Term) *Term {
	k := tkey{op: op, w: w, val: val, name: name, a: -1, b: -1, c: -1}
	switch len(args) {
	case 0:
	case 1:
		k.a = args[0].ID
	case 2:
		k.a, k.b = args[0].ID, args[1].ID
	case 3:
		k.a, k.b, k.c = args[0].ID, args[1].ID, args[2].ID
	default:
		buf := make([]byte, 0, len(args)*6+len(name)+1)
		buf = append(buf, name...)
		for _, a := range args {
			buf = append(buf, '|')
			buf = strconv.AppendInt(buf, int64(a.ID), 36)
		}
		k.name = string(buf)
	}
	if t, ok := c.table[k]; ok {
		return t
	}
	t := &Term{Op: op, W: w, Val: val, Name: name, Args: args, ID: c.next}
	c.next++
	c.table[k] = t
	return t
}

func mask(w int) uint64 {
	if w >= 64 {
		return ^uint64(0)
	}
	return (uint64(1) << uint(w)) - 1
}

func (t *Term) IsConst() bool { return t.Op == OpConst }
func (t *Term) IsTrue() bool  { return t.Op == OpConst && t.W == 0 && t.Val == 1 }
func (t *Term) IsFalse() bool { return t.Op == OpConst && t.W == 0 && t.Val == 0 }

// SVal returns the constant as a sign-extended int64.
func (t *Term) SVal() int64 {
	return signExt(t.Val, t.W)
}

func signExt(v uint64, w int) int64 {
	if w >= 64 {
		return int64(v)
	}
	if v&(uint64(1)<<uint(w-1)) != 0 {
		return int64(v | ^mask(w))
	}
	return int64(v)
}

func (c *Ctx) BV(v uint64, w int) *Term { return c.mk(OpConst, w, v&mask(w), "", nil) }
func (c *Ctx) Int(v int64) *Term        { return c.BV(uint64(v), 64) }
func (c *Ctx) Bool(b bool) *Term {
	if b {
		return c.True
	}
	return c.False
}
func (c *Ctx) Var(name string, w int) *Term { return c.mk(OpVar, w, 0, name, nil) }

func (c *Ctx) UF(name string, w int, args ...*Term) *Term {
	sig := make([]int, 0, len(args)+1)
	for _, a := range args {
		sig = append(sig, a.W)
	}
	sig = append(sig, w)
	if old, ok := c.ufs[name]; ok {
		if fmt.Sprint(old) != fmt.Sprint(sig) {
			panic("UF signature mismatch for " + name)
		}
	} else {
		c.ufs[name] = sig
	}
	if len(args) == 0 {
		return c.Var(name, w)
	}
	return c.mk(OpUF, w, 0, name, args)
}

func (c *Ctx) Not(a *Term) *Term {
	if a.W != 0 {
		panic("Not on non-bool")
	}
	if a.IsConst() {
		return c.Bool(a.Val == 0)
	}
	if a.Op == OpNot {
		return a.Args[0]
	}
	return c.mk(OpNot, 0, 0, "", []*Term{a})
}

func (c *Ctx) And(xs ...*Term) *Term {
	var out []*Term
	seen := map[int]bool{}
	var add func(x *Term) bool
	add = func(x *Term) bool {
		if x.IsFalse() {
			return false
		}
		if x.IsTrue() || seen[x.ID] {
			return true
		}
		if x.Op == OpAnd && len(x.Args) <= 6 {
			for _, y := range x.Args {
				if !add(y) {
					return false
				}
			}
			return true
		}
		seen[x.ID] = true
		out = append(out, x)
		return true
	}
	for _, x := range xs {
		if !add(x) {
			return c.False
		}
	}
	for _, x := range out {
		if x.Op == OpNot && seen[x.Args[0].ID] {
			return c.False
		}
	}
	if len(out) == 0 {
		return c.True
	}
	if len(out) == 1 {
		return out[0]
	}
	sort.Slice(out, func(i, j int) bool { return out[i].ID < out[j].ID })
	return c.mk(OpAnd, 0, 0, "", out)
}

func (c *Ctx) Or(xs ...*Term) *Term {
	var out []*Term
	seen := map[int]bool{}
	var add func(x *Term) bool
	add = func(x *Term) bool {
		if x.IsTrue() {
			return false
		}
		if x.IsFalse() || seen[x.ID] {
			return true
		}
		if x.Op == OpOr && len(x.Args) <= 6 {
			for _, y := range x.Args {
				if !add(y) {
					return false
				}
			}
			return true
		}
		seen[x.ID] = true
		out = append(out, x)
		return true
	}
	for _, x := range xs {
		if !add(x) {
			return c.True
		}
	}
	for _, x := range out {
		if x.Op == OpNot && seen[x.Args[0].ID] {
			return c.True
		}
	}
	if len(out) == 0 {
		return c.False
	}
	if len(out) == 1 {
		return out[0]
	}
	sort.Slice(out, func(i, j int) bool { return out[i].ID < out[j].ID })
	return c.mk(OpOr, 0, 0, "", out)
}

func (c *Ctx) Implies(a, b *Term) *Term { return c.Or(c.Not(a), b) }

func (c *Ctx) Ite(cond, a, b *Term) *Term {
	if cond.W != 0 || a.W != b.W {
		panic(fmt.Sprintf("Ite sort mismatch %d %d %d", cond.W, a.W, b.W))
	}
	if cond.IsTrue() {
		return a
	}
	if cond.IsFalse() {
		return b
	}
	if a == b {
		return a
	}
	if cond.Op == OpNot {
		return c.Ite(cond.Args[0], b, a)
	}
	if a.W == 0 {
		switch {
		case a.IsTrue() && b.IsFalse():
			return cond
		case a.IsFalse() && b.IsTrue():
			return c.Not(cond)
		case a.IsTrue():
			return c.Or(cond, b)
		case a.IsFalse():
			return c.And(c.Not(cond), b)
		case b.IsTrue():
			return c.Or(c.Not(cond), a)
		case b.IsFalse():
			return c.And(cond, a)
		}
	}
	// ite(c, x, ite(c, y, z)) = ite(c, x, z)
	if b.Op == OpIte && b.Args[0] == cond {
		return c.Ite(cond, a, b.Args[2])
	}
	if a.Op == OpIte && a.Args[0] == cond {
		return c.Ite(cond, a.Args[1], b)
	}
	return c.mk(OpIte, a.W, 0, "", []*Term{cond, a, b})
}

func (c *Ctx) Eq(a, b *Term) *Term {
	if a.W != b.W {
		panic(fmt.Sprintf("Eq width mismatch %d vs %d", a.W, b.W))
	}
	if a == b {
		return c.True
	}
	if a.IsConst() && b.IsConst() {
		return c.Bool(a.Val == b.Val)
	}
	if a.W == 0 {
		if a.IsConst() {
			a, b = b, a
		}
		if b.IsTrue() {
			return a
		}
		if b.IsFalse() {
			return c.Not(a)
		}
	}
	if a.IsConst() {
		a, b = b, a
	}
	if a.W != 0 {
		if r, ok := c.liftBin(a, b, func(x, y *Term) *Term { return c.Bool(x.Val == y.Val) }); ok {
			return r
		}
	}
	// push equality with a constant through ite (keeps ite-chains over
	// literal bytes foldable).
	if b.IsConst() && a.Op == OpIte && (a.Args[1].IsConst() || a.Args[2].IsConst() || a.Args[1].Op == OpIte || a.Args[2].Op == OpIte) {
		return c.iteEqConst(a, b, 0)
	}
	// zext(x) == const
	if b.IsConst() && a.Op == OpZext {
		x := a.Args[0]
		if b.Val > mask(x.W) {
			return c.False
		}
		return c.Eq(x, c.BV(b.Val, x.W))
	}
	if a.ID > b.ID {
		a, b = b, a
	}
	return c.mk(OpEq, 0, 0, "", []*Term{a, b})
}

func (c *Ctx) iteEqConst(a, k *Term, depth int) *Term {
	if a.Op != OpIte || depth > 64 {
		if a.IsConst() {
			return c.Bool(a.Val == k.Val)
		}
		x, y := a, k
		if x.ID > y.ID {
			x, y = y, x
		}
		return c.mk(OpEq, 0, 0, "", []*Term{x, y})
	}
	return c.Ite(a.Args[0], c.iteEqConst(a.Args[1], k, depth+1), c.iteEqConst(a.Args[2], k, depth+1))
}

func (c *Ctx) Ne(a, b *Term) *Term { return c.Not(c.Eq(a, b)) }

func (c *Ctx) bin(op Op, a, b *Term) *Term {
	if a.W != b.W || a.W == 0 {
		panic(fmt.Sprintf("bin %v width mismatch %d vs %d", opNames[op], a.W, b.W))
	}
	w := a.W
	if a.IsConst() && b.IsConst() {
		if v, ok := foldBin(op, a.Val, b.Val, w); ok {
			return c.BV(v, w)
		}
	}
	if op != OpSDiv && op != OpSRem {
		if r, ok := c.liftBin(a, b, func(x, y *Term) *Term {
			v, _ := foldBin(op, x.Val, y.Val, w)
			return c.BV(v, w)
		}); ok {
			return r
		}
	}
	switch op {
	case OpAdd:
		if a.IsConst() {
			a, b = b, a
		}
		if b.IsConst() && b.Val == 0 {
			return a
		}
		// (x + k1) + k2
		if b.IsConst() && a.Op == OpAdd && a.Args[1].IsConst() {
			return c.bin(OpAdd, a.Args[0], c.BV(a.Args[1].Val+b.Val, w))
		}
		if b.IsConst() && a.Op == OpIte && a.Args[1].IsConst() && a.Args[2].IsConst() {
			return c.Ite(a.Args[0], c.bin(OpAdd, a.Args[1], b), c.bin(OpAdd, a.Args[2], b))
		}
	case OpSub:
		if b.IsConst() {
			return c.bin(OpAdd, a, c.BV(-b.Val, w))
		}
		if a == b {
			return c.BV(0, w)
		}
	case OpMul:
		if a.IsConst() {
			a, b = b, a
		}
		if b.IsConst() {
			if b.Val == 0 {
				return b
			}
			if b.Val == 1 {
				return a
			}
		}
	case OpBAnd:
		if a.IsConst() {
			a, b = b, a
		}
		if b.IsConst() {
			if b.Val == 0 {
				return b
			}
			if b.Val == mask(w) {
				return a
			}
		}
		if a == b {
			return a
		}
	case OpBOr, OpBXor:
		if a.IsConst() {
			a, b = b, a
		}
		if b.IsConst() && b.Val == 0 {
			return a
		}
	case OpShl, OpLshr, OpAshr:
		if b.IsConst() && b.Val == 0 {
			return a
		}
	}
	return c.mk(op, w, 0, "", []*Term{a, b})
}

func foldBin(op Op, x, y uint64, w int) (uint64, bool) {
	m := mask(w)
	sx, sy := signExt(x, w), signExt(y, w)
	switch op {
	case OpAdd:
		return (x + y) & m, true
	case OpSub:
		return (x - y) & m, true
	case OpMul:
		return (x * y) & m, true
	case OpUDiv:
		if y == 0 {
			return m, true
		}
		return x / y, true
	case OpURem:
		if y == 0 {
			return x, true
		}
		return x % y, true
	case OpSDiv:
		if y == 0 {
			return 0, false
		}
		if sx == -1<<63 && sy == -1 {
			return x, true
		}
		return uint64(sx/sy) & m, true
	case OpSRem:
		if y == 0 {
			return 0, false
		}
		if sy == -1 {
			return 0, true
		}
		return uint64(sx%sy) & m, true
	case OpBAnd:
		return x & y, true
	case OpBOr:
		return x | y, true
	case OpBXor:
		return x ^ y, true
	case OpShl:
		if y >= uint64(w) {
			return 0, true
		}
		return (x << y) & m, true
	case OpLshr:
		if y >= uint64(w) {
			return 0, true
		}
		return x >> y, true
	case OpAshr:
		if y >= uint64(w) {
			if sx < 0 {
				return m, true
			}
			return 0, true
		}
		return uint64(sx>>y) & m, true
	}
	return 0, false
}

func (c *Ctx) Add(a, b *Term) *Term  { return c.bin(OpAdd, a, b) }
func (c *Ctx) Sub(a, b *Term) *Term  { return c.bin(OpSub, a, b) }
func (c *Ctx) Mul(a, b *Term) *Term  { return c.bin(OpMul, a, b) }
func (c *Ctx) BAnd(a, b *Term) *Term { return c.bin(OpBAnd, a, b) }
func (c *Ctx) BOr(a, b *Term) *Term  { return c.bin(OpBOr, a, b) }
func (c *Ctx) BXor(a, b *Term) *Term { return c.bin(OpBXor, a, b) }
func (c *Ctx) Bin(op Op, a, b *Term) *Term {
	return c.bin(op, a, b)
}

func (c *Ctx) BNot(a *Term) *Term {
	if a.IsConst() {
		return c.BV(^a.Val, a.W)
	}
	return c.mk(OpBNot, a.W, 0, "", []*Term{a})
}

func (c *Ctx) Neg(a *Term) *Term { return c.Sub(c.BV(0, a.W), a) }

func (c *Ctx) cmp(op Op, a, b *Term) *Term {
	if a.W != b.W || a.W == 0 {
		panic(fmt.Sprintf("cmp width mismatch %d vs %d", a.W, b.W))
	}
	if a.IsConst() && b.IsConst() {
		switch op {
		case OpUlt:
			return c.Bool(a.Val < b.Val)
		case OpUle:
			return c.Bool(a.Val <= b.Val)
		case OpSlt:
			return c.Bool(a.SVal() < b.SVal())
		case OpSle:
			return c.Bool(a.SVal() <= b.SVal())
		}
	}
	if a == b {
		return c.Bool(op == OpUle || op == OpSle)
	}
	if r, ok := c.liftBin(a, b, func(x, y *Term) *Term { return c.cmp(op, x, y) }); ok {
		return r
	}
	// comparisons of ite-of-constants with a constant fold through
	if b.IsConst() && a.Op == OpIte && (a.Args[1].IsConst() || a.Args[2].IsConst()) {
		return c.Ite(a.Args[0], c.cmp(op, a.Args[1], b), c.cmp(op, a.Args[2], b))
	}
	if a.IsConst() && b.Op == OpIte && (b.Args[1].IsConst() || b.Args[2].IsConst()) {
		return c.Ite(b.Args[0], c.cmp(op, a, b.Args[1]), c.cmp(op, a, b.Args[2]))
	}
	// zext(x) < const etc.
	if a.Op == OpZext && b.IsConst() && (op == OpUlt || op == OpUle) {
		x := a.Args[0]
		if b.Val > mask(x.W) {
			return c.True
		}
		return c.cmp(op, x, c.BV(b.Val, x.W))
	}
	if b.Op == OpZext && a.IsConst() && (op == OpUlt || op == OpUle) {
		x := b.Args[0]
		if a.Val > mask(x.W) {
			return c.False
		}
		return c.cmp(op, c.BV(a.Val, x.W), x)
	}
	if op == OpUlt && b.IsConst() && b.Val == 0 {
		return c.False
	}
	if op == OpUle && a.IsConst() && a.Val == 0 {
		return c.True
	}
	return c.mk(op, 0, 0, "", []*Term{a, b})
}

func (c *Ctx) Ult(a, b *Term) *Term { return c.cmp(OpUlt, a, b) }
func (c *Ctx) Ule(a, b *Term) *Term { return c.cmp(OpUle, a, b) }
func (c *Ctx) Slt(a, b *Term) *Term { return c.cmp(OpSlt, a, b) }
func (c *Ctx) Sle(a, b *Term) *Term { return c.cmp(OpSle, a, b) }

func (c *Ctx) Zext(a *Term, w int) *Term {
	if a.W == w {
		return a
	}
	if a.W > w {
		return c.Extract(a, 0, w)
	}
	if a.IsConst() {
		return c.BV(a.Val, w)
	}
	if a.isConstTree() {
		return c.mapLeaves(a, func(x *Term) *Term { return c.BV(x.Val, w) }, map[int]*Term{})
	}
	if a.Op == OpIte && (a.Args[1].IsConst() || a.Args[2].IsConst()) {
		return c.Ite(a.Args[0], c.Zext(a.Args[1], w), c.Zext(a.Args[2], w))
	}
	if a.Op == OpZext {
		return c.Zext(a.Args[0], w)
	}
	return c.mk(OpZext, w, 0, "", []*Term{a})
}

func (c *Ctx) Sext(a *Term, w int) *Term {
	if a.W == w {
		return a
	}
	if a.W > w {
		return c.Extract(a, 0, w)
	}
	if a.IsConst() {
		return c.BV(uint64(a.SVal()), w)
	}
	if a.isConstTree() {
		return c.mapLeaves(a, func(x *Term) *Term { return c.BV(uint64(x.SVal()), w) }, map[int]*Term{})
	}
	if a.Op == OpIte && (a.Args[1].IsConst() || a.Args[2].IsConst()) {
		return c.Ite(a.Args[0], c.Sext(a.Args[1], w), c.Sext(a.Args[2], w))
	}
	return c.mk(OpSext, w, 0, "", []*Term{a})
}

// Extract returns bits [lo, lo+w) of a.
func (c *Ctx) Extract(a *Term, lo, w int) *Term {
	if lo == 0 && w == a.W {
		return a
	}
	if a.IsConst() {
		return c.BV(a.Val>>uint(lo), w)
	}
	if a.isConstTree() {
		return c.mapLeaves(a, func(x *Term) *Term { return c.BV(x.Val>>uint(lo), w) }, map[int]*Term{})
	}
	if lo == 0 && (a.Op == OpZext || a.Op == OpSext) && a.Args[0].W >= w {
		return c.Extract(a.Args[0], 0, w)
	}
	if a.Op == OpIte && (a.Args[1].IsConst() || a.Args[2].IsConst()) {
		return c.Ite(a.Args[0], c.Extract(a.Args[1], lo, w), c.Extract(a.Args[2], lo, w))
	}
	return c.mk(OpExtract, w, uint64(lo), "", []*Term{a})
}

// ---------------------------------------------------------------- printing

func sortName(w int) string {
	if w == 0 {
		return "Bool"
	}
	return fmt.Sprintf("(_ BitVec %d)", w)
}

func constLit(t *Term) string {
	if t.W == 0 {
		if t.Val == 1 {
			return "true"
		}
		return "false"
	}
	if t.W%4 == 0 {
		return fmt.Sprintf("#x%0*x", t.W/4, t.Val)
	}
	return fmt.Sprintf("#b%0*b", t.W, t.Val)
}

func smtName(s string) string {
	ok := true
	for _, r := range s {
		if !(r >= 'a' && r <= 'z' || r >= 'A' && r <= 'Z' || r >= '0' && r <= '9' || r == '_' || r == '.' || r == '$') {
			ok = false
		}
	}
	if ok && s != "" {
		return s
	}
	return "|" + strings.NewReplacer("|", "_", "\\", "_").Replace(s) + "|"
}

// varSMT is the solver-level name of a variable: the width is part of it so the
// same harness name may be used at different widths in different instances.
func varSMT(t *Term) string { return smtName(fmt.Sprintf("%s!%d", t.Name, t.W)) }

// ref is how a term is referred to from other definitions.
func ref(t *Term) string {
	switch t.Op {
	case OpConst:
		return constLit(t)
	case OpVar:
		return varSMT(t)
	}
	return fmt.Sprintf("t%d", t.ID)
}

// body prints the one-level definition of t in terms of refs.
func body(t *Term) string {
	switch t.Op {
	case OpConst, OpVar:
		return ref(t)
	case OpZext:
		return fmt.Sprintf("((_ zero_extend %d) %s)", t.W-t.Args[0].W, ref(t.Args[0]))
	case OpSext:
		return fmt.Sprintf("((_ sign_extend %d) %s)", t.W-t.Args[0].W, ref(t.Args[0]))
	case OpExtract:
		return fmt.Sprintf("((_ extract %d %d) %s)", int(t.Val)+t.W-1, t.Val, ref(t.Args[0]))
	case OpUF:
		var sb strings.Builder
		sb.WriteString("(" + smtName(t.Name))
		for _, a := range t.Args {
			sb.WriteString(" " + ref(a))
		}
		sb.WriteString(")")
		return sb.String()
	}
	var sb strings.Builder
	sb.WriteString("(" + opNames[t.Op])
	for _, a := range t.Args {
		sb.WriteString(" " + ref(a))
	}
	sb.WriteString(")")
	return sb.String()
}

// Vars collects the free variables reachable from ts.
func Vars(ts []*Term) []*Term {
	seen := map[int]bool{}
	var out []*Term
	var walk func(t *Term)
	walk = func(t *Term) {
		if seen[t.ID] {
			return
		}
		seen[t.ID] = true
		if t.Op == OpVar {
			out = append(out, t)
		}
		for _, a := range t.Args {
			walk(a)
		}
	}
	for _, t := range ts {
		walk(t)
	}
	sort.Slice(out, func(i, j int) bool { return out[i].Name < out[j].Name })
	return out
}

// DagSize counts distinct nodes reachable from ts.
func DagSize(ts []*Term) int {
	seen := map[int]bool{}
	var walk func(t *Term)
	walk = func(t *Term) {
		if seen[t.ID] {
			return
		}
		seen[t.ID] = true
		for _, a := range t.Args {
			walk(a)
		}
	}
	for _, t := range ts {
		walk(t)
	}
	return len(seen)
}

// Eval evaluates t under a model (variable name -> value). Variables missing
// from the model evaluate to 0. UF applications are looked up in uf (key:
// name(args)) and default to 0.
func Eval(t *Term, model map[string]uint64, memo map[int]uint64) uint64 {
	if v, ok := memo[t.ID]; ok {
		return v
	}
	var v uint64
	a := func(i int) uint64 { return Eval(t.Args[i], model, memo) }
	b2u := func(b bool) uint64 {
		if b {
			return 1
		}
		return 0
	}
	switch t.Op {
	case OpConst:
		v = t.Val
	case OpVar:
		v = model[t.Name] & maskOr1(t.W)
	case OpNot:
		v = 1 - a(0)
	case OpAnd:
		v = 1
		for i := range t.Args {
			if a(i) == 0 {
				v = 0
				break
			}
		}
	case OpOr:
		v = 0
		for i := range t.Args {
			if a(i) == 1 {
				v = 1
				break
			}
		}
	case OpIte:
		if a(0) == 1 {
			v = a(1)
		} else {
			v = a(2)
		}
	case OpEq:
		v = b2u(a(0) == a(1))
	case OpUlt:
		v = b2u(a(0) < a(1))
	case OpUle:
		v = b2u(a(0) <= a(1))
	case OpSlt:
		w := t.Args[0].W
		v = b2u(signExt(a(0), w) < signExt(a(1), w))
	case OpSle:
		w := t.Args[0].W
		v = b2u(signExt(a(0), w) <= signExt(a(1), w))
	case OpZext:
		v = a(0)
	case OpSext:
		v = uint64(signExt(a(0), t.Args[0].W)) & mask(t.W)
	case OpExtract:
		v = (a(0) >> t.Val) & mask(t.W)
	case OpBNot:
		v = ^a(0) & mask(t.W)
	case OpUF:
		key := t.Name + "("
		for i := range t.Args {
			key += fmt.Sprintf("%d,", a(i))
		}
		v = model[key+")"] & maskOr1(t.W)
	default:
		x, y := a(0), a(1)
		r, ok := foldBin(t.Op, x, y, t.W)
		if !ok {
			r = 0
		}
		v = r
	}
	memo[t.ID] = v
	return v
}

func maskOr1(w int) uint64 {
	if w == 0 {
		return 1
	}
	return mask(w)
}

var _ = bits.Len
