package main

import (
	"encoding/json"
	"fmt"
	"go/ast"
	"os"
	"os/exec"
	"path/filepath"
	"strings"

	"golang.org/x/tools/go/ssa"
)

// nativeReplay runs the harness natively (go test -overlay) with the solver's
// model as replay vector and reports whether the violation shows up in the
// compiled real code.
func (g *Engine) nativeReplay(v FoundViolation, modelPath string) (bool, string) {
	h := v.Instance.H
	pkgPath := h.Fn.Pkg.Pkg.Path()
	pkgDir := strings.TrimPrefix(strings.TrimPrefix(pkgPath, "github.com/maruel/panicparse/v2"), "/")
	pkgName := h.Fn.Pkg.Pkg.Name()
	var args []string
	for _, a := range v.Instance.Args {
		args = append(args, fmt.Sprint(a))
	}
	iters := 1
	if h.ReplayIters > 0 {
		iters = h.ReplayIters
	}
	src := fmt.Sprintf(`//go:build verif

package %s

import (
	"fmt"
	"testing"
)

func TestVerifReplay(t *testing.T) {
	for it := 0; it < %d; it++ {
		func() {
			defer func() {
				if r := recover(); r != nil {
					fmt.Printf("REPLAY-PANIC %%v\n", r)
				}
			}()
			vLoadReplay(%q)
			%s(%s)
		}()
	}
	fmt.Println("REPLAY-DONE")
}
`, pkgName, iters, modelPath, h.Name, strings.Join(args, ", "))
	dir := filepath.Dir(modelPath)
	testFile := strings.TrimSuffix(modelPath, ".json") + "_test.go.txt"
	if err := os.WriteFile(testFile, []byte(src), 0o644); err != nil {
		return false, err.Error()
	}
	ov := map[string]map[string]string{"Replace": {}}
	for virt, real := range g.ovFiles {
		ov["Replace"][virt] = real
	}
	ov["Replace"][filepath.Join(g.repo, pkgDir, "zz_verif_replay_test.go")] = testFile
	ovPath := filepath.Join(dir, filepath.Base(modelPath)+".overlay.json")
	b, _ := json.Marshal(ov)
	os.WriteFile(ovPath, b, 0o644)
	cmd := exec.Command("go", "test", "-tags", "verif", "-vet=off", "-count=1", "-overlay", ovPath, "-run", "^TestVerifReplay$", "-v", "./"+pkgDir)
	cmd.Dir = g.repo
	cmd.Env = append(os.Environ(), "GOFLAGS=-mod=mod", "GOPROXY=off", "GOSUMDB=off", "GOTOOLCHAIN=local")
	out, _ := cmd.CombinedOutput()
	txt := string(out)
	if strings.Contains(txt, "REPLAY-ASSUME-FAIL") && !strings.Contains(txt, "REPLAY-ASSERT-FAIL") {
		return false, txt
	}
	switch v.Kind {
	case "assert":
		return strings.Contains(txt, "REPLAY-ASSERT-FAIL "+v.Label), txt
	case "barrier":
		// write barriers have no native counterpart; the harness' own
		// before/after comparison (if any) shows up as an assert failure.
		return strings.Contains(txt, "REPLAY-ASSERT-FAIL"), txt
	default:
		return strings.Contains(txt, "REPLAY-PANIC") || strings.Contains(txt, "panic:"), txt
	}
}

// witness is a reach witness to be cross-checked natively.
type witness struct {
	h     *Harness
	args  []int64
	model map[string]uint64
	label string
}

// validateWitnesses runs the harnesses natively on the solver's reach
// witnesses (one go test per package): every assumption must hold natively
// (else the encoding disagrees with the compiled code) and no assertion or
// panic may fire. Returns the number validated and the list of mismatches.
func (g *Engine) validateWitnesses(prop string, ws []witness) (int, []string) {
	if len(ws) == 0 {
		return 0, nil
	}
	dir := filepath.Join(g.verifDir, "out", "validate", prop)
	os.MkdirAll(dir, 0o755)
	byPkg := map[string][]int{}
	for i, w := range ws {
		byPkg[w.h.Fn.Pkg.Pkg.Path()] = append(byPkg[w.h.Fn.Pkg.Pkg.Path()], i)
	}
	ok := 0
	var bad []string
	for pkgPath, idxs := range byPkg {
		pkgDir := strings.TrimPrefix(strings.TrimPrefix(pkgPath, "github.com/maruel/panicparse/v2"), "/")
		pkgName := ws[idxs[0]].h.Fn.Pkg.Pkg.Name()
		var body strings.Builder
		for _, i := range idxs {
			w := ws[i]
			mp := filepath.Join(dir, fmt.Sprintf("w%d.json", i))
			b, _ := json.Marshal(map[string]interface{}{"model": w.model})
			os.WriteFile(mp, b, 0o644)
			var args []string
			for _, a := range w.args {
				args = append(args, fmt.Sprint(a))
			}
			fmt.Fprintf(&body, "\trun(%d, %q, func() { %s(%s) })\n", i, mp, w.h.Name, strings.Join(args, ", "))
		}
		src := fmt.Sprintf(`//go:build verif

package %s

import (
	"fmt"
	"testing"
)

func TestVerifWitnesses(t *testing.T) {
	run := func(i int, model string, f func()) {
		fmt.Printf("WITNESS-BEGIN %%d\n", i)
		func() {
			defer func() {
				if r := recover(); r != nil {
					fmt.Printf("REPLAY-PANIC %%v\n", r)
				}
			}()
			vLoadReplay(model)
			f()
		}()
		fmt.Printf("WITNESS-END %%d\n", i)
	}
%s}
`, pkgName, body.String())
		testFile := filepath.Join(dir, "witness_"+pkgName+"_test.go.txt")
		os.WriteFile(testFile, []byte(src), 0o644)
		ov := map[string]map[string]string{"Replace": {}}
		for virt, real := range g.ovFiles {
			ov["Replace"][virt] = real
		}
		ov["Replace"][filepath.Join(g.repo, pkgDir, "zz_verif_witness_test.go")] = testFile
		ovPath := filepath.Join(dir, "overlay_"+pkgName+".json")
		b, _ := json.Marshal(ov)
		os.WriteFile(ovPath, b, 0o644)
		cmd := exec.Command("go", "test", "-tags", "verif", "-vet=off", "-count=1", "-overlay", ovPath, "-run", "^TestVerifWitnesses$", "-v", "./"+pkgDir)
		cmd.Dir = g.repo
		cmd.Env = append(os.Environ(), "GOFLAGS=-mod=mod", "GOPROXY=off", "GOSUMDB=off", "GOTOOLCHAIN=local")
		out, _ := cmd.CombinedOutput()
		txt := string(out)
		for _, i := range idxs {
			beg := strings.Index(txt, fmt.Sprintf("WITNESS-BEGIN %d\n", i))
			end := strings.Index(txt, fmt.Sprintf("WITNESS-END %d\n", i))
			if beg < 0 || end < 0 {
				bad = append(bad, fmt.Sprintf("%s: witness %d did not run natively", ws[i].h.Name, i))
				continue
			}
			seg := txt[beg:end]
			if strings.Contains(seg, "REPLAY-ASSUME-FAIL") || strings.Contains(seg, "REPLAY-ASSERT-FAIL") || strings.Contains(seg, "REPLAY-PANIC") {
				line := seg
				if len(line) > 300 {
					line = line[:300]
				}
				bad = append(bad, fmt.Sprintf("%s(%v) label %q: native run disagrees with the encoding: %s", ws[i].h.Name, ws[i].args, ws[i].label, strings.ReplaceAll(line, "\n", " | ")))
				continue
			}
			ok++
		}
		if len(bad) > 0 {
			os.WriteFile(filepath.Join(dir, "native_"+pkgName+".log"), out, 0o644)
		}
	}
	return ok, bad
}

// reachLabels lists the vReach("...") labels in the harness function's source.
func (g *Engine) reachLabels(h *Harness) []string {
	var out []string
	pp := g.ppkgs[h.Fn.Pkg.Pkg.Path()]
	for _, file := range pp.Syntax {
		for _, d := range file.Decls {
			fd, ok := d.(*ast.FuncDecl)
			if !ok || fd.Name.Name != h.Name || fd.Body == nil {
				continue
			}
			ast.Inspect(fd.Body, func(n ast.Node) bool {
				ce, ok := n.(*ast.CallExpr)
				if !ok {
					return true
				}
				if id, ok := ce.Fun.(*ast.Ident); ok && id.Name == "vReach" && len(ce.Args) == 1 {
					if bl, ok := ce.Args[0].(*ast.BasicLit); ok {
						out = append(out, strings.Trim(bl.Value, "\""))
					}
				}
				return true
			})
		}
	}
	return out
}

func (g *Engine) reachableFuncs(fn *ssa.Function, seen map[string]int) {
	if fn == nil || fn.Pkg == nil || !g.isRepoPkg(fn.Pkg.Pkg.Path()) {
		return
	}
	name := fn.String()
	if _, ok := seen[name]; ok {
		return
	}
	if g.isHarnessRT(fn) {
		return
	}
	n := 0
	for _, b := range fn.Blocks {
		n += len(b.Instrs)
	}
	seen[name] = n
	for _, b := range fn.Blocks {
		for _, ins := range b.Instrs {
			if c, ok := ins.(ssa.CallInstruction); ok {
				if callee := c.Common().StaticCallee(); callee != nil {
					g.reachableFuncs(callee, seen)
				}
			}
			if mc, ok := ins.(*ssa.MakeClosure); ok {
				g.reachableFuncs(mc.Fn.(*ssa.Function), seen)
			}
		}
	}
	for _, af := range fn.AnonFuncs {
		g.reachableFuncs(af, seen)
	}
}

// ------------------------------------------------------------ known findings

type knownFinding struct {
	ID       string `json:"id"`
	Property string `json:"property"`
	What     string `json:"what"`
	Harness  string `json:"harness"`  // harness name whose violation this is
	Instance string `json:"instance"` // substring of the instance description (optional)
	Label    string `json:"label"`    // assertion label / panic label substring
	Site     string `json:"site"`     // site substring (optional)
	Exclude  string `json:"exclude"`  // id passed to vKnown() in harnesses
	Witness  string `json:"witness"`  // human-readable failing input
	PinnedBy string `json:"pinned_by"`
}

type knownFile struct {
	Findings []knownFinding `json:"findings"`
	Fixed    []struct {
		Property string `json:"property"`
		Commit   string `json:"commit"`
		What     string `json:"what"`
	} `json:"fixed"`
}

var knownDB knownFile
var knownHit = map[string]bool{}

func (g *Engine) loadKnown() {
	b, err := os.ReadFile(filepath.Join(g.verifDir, "known_findings.json"))
	if err != nil {
		return
	}
	json.Unmarshal(b, &knownDB)
	for _, k := range knownDB.Findings {
		if k.Exclude != "" {
			g.known[k.Exclude] = true
		}
	}
}

// matchKnown returns the finding id if the violation is a listed known finding.
func (g *Engine) matchKnown(prop string, v FoundViolation) string {
	for _, k := range knownDB.Findings {
		if k.Property != prop || k.Exclude != "" {
			continue
		}
		if k.Harness != "" && k.Harness != v.Instance.H.Name {
			continue
		}
		if k.Label != "" && !strings.Contains(v.Label, k.Label) {
			continue
		}
		if k.Instance != "" && !strings.Contains(v.Instance.String(), k.Instance+",") && !strings.Contains(v.Instance.String(), k.Instance+")") {
			continue
		}
		if k.Site != "" && !strings.Contains(v.Site, k.Site) {
			continue
		}
		knownHit[k.ID] = true
		return k.ID
	}
	return ""
}

func (g *Engine) announceKnown(prop string) []string {
	var out []string
	for _, k := range knownDB.Findings {
		if k.Property == prop && (knownHit[k.ID] || k.Exclude != "") {
			out = append(out, fmt.Sprintf("KNOWN-FINDING: property=%s %s: %s (witness: %s)", prop, k.ID, k.What, k.Witness))
		}
	}
	return out
}

func cmdSelftest(args []string) int {
	fmt.Println("selftest: see /verif/seeded and /verif/run_seeded.sh")
	return 0
}
