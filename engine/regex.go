package main

// Bounded symbolic leftmost-first matcher for Go regexps, built on the very
// program regexp/syntax compiles for the pattern string found in the current
// tree. Positions are concrete, bytes are terms; the result is one Boolean
// "matched" plus capture offsets as ite-DAGs (DESIGN.md §2.4).

import (
	"fmt"
	"go/types"
	"regexp"
	"regexp/syntax"
	"sync"

	"golang.org/x/tools/go/ssa"
)

type rxProg struct {
	prog  *syntax.Prog
	ncap  int
	err   string       // non-empty: pattern not supported by the model
	hiAll map[int]bool // rune instructions admitting every rune >= 0x80
}

var rxCache sync.Map

func compileRx(pattern string) *rxProg {
	if v, ok := rxCache.Load(pattern); ok {
		return v.(*rxProg)
	}
	rp := &rxProg{hiAll: map[int]bool{}}
	re, err := syntax.Parse(pattern, syntax.Perl)
	if err != nil {
		rp.err = err.Error()
		rxCache.Store(pattern, rp)
		return rp
	}
	rp.ncap = re.MaxCap()
	re = re.Simplify()
	prog, err := syntax.Compile(re)
	if err != nil {
		rp.err = err.Error()
		rxCache.Store(pattern, rp)
		return rp
	}
	rp.prog = prog
	rp.check()
	rxCache.Store(pattern, rp)
	return rp
}

// admits reports how the rune instruction treats ASCII byte c and runes >= 0x80.
func runeAdmitsASCII(in *syntax.Inst, c rune) bool {
	switch in.Op {
	case syntax.InstRuneAny:
		return true
	case syntax.InstRuneAnyNotNL:
		return c != '\n'
	}
	return in.MatchRune(c)
}

// hiClass: 0 = admits no rune >= 0x80, 1 = admits all of them, 2 = some.
func hiClass(in *syntax.Inst) int {
	switch in.Op {
	case syntax.InstRuneAny, syntax.InstRuneAnyNotNL:
		return 1
	}
	rs := in.Rune
	if len(rs) == 1 {
		if rs[0] < 0x80 {
			if syntax.Flags(in.Arg)&syntax.FoldCase != 0 {
				// folding may map to non-ASCII (K, S); treat as unsupported
				return 2
			}
			return 0
		}
		return 2
	}
	// covered part of [0x80, 0x10FFFF]
	covered := rune(0x80)
	any := false
	for i := 0; i+1 < len(rs); i += 2 {
		lo, hi := rs[i], rs[i+1]
		if hi < 0x80 {
			continue
		}
		any = true
		if lo > covered {
			return 2
		}
		if hi+1 > covered {
			covered = hi + 1
		}
	}
	if !any {
		return 0
	}
	if covered > 0x10FFFF {
		return 1
	}
	return 2
}

func (rp *rxProg) epsClosure(pc int, seen map[int]bool, out *[]int) {
	if seen[pc] {
		return
	}
	seen[pc] = true
	in := &rp.prog.Inst[pc]
	switch in.Op {
	case syntax.InstAlt, syntax.InstAltMatch:
		rp.epsClosure(int(in.Out), seen, out)
		rp.epsClosure(int(in.Arg), seen, out)
	case syntax.InstNop, syntax.InstCapture, syntax.InstEmptyWidth:
		rp.epsClosure(int(in.Out), seen, out)
	default:
		*out = append(*out, pc)
	}
}

// check enforces the condition under which byte-wise matching equals Go's
// rune-wise matching (see DESIGN.md §2.4).
func (rp *rxProg) check() {
	p := rp.prog
	for pc := range p.Inst {
		in := &p.Inst[pc]
		switch in.Op {
		case syntax.InstEmptyWidth:
			if syntax.EmptyOp(in.Arg)&(syntax.EmptyWordBoundary|syntax.EmptyNoWordBoundary) != 0 {
				rp.err = "word boundary assertions are not modelled"
				return
			}
		case syntax.InstRune, syntax.InstRune1, syntax.InstRuneAny, syntax.InstRuneAnyNotNL:
			switch hiClass(in) {
			case 2:
				rp.err = fmt.Sprintf("instruction %d admits some but not all non-ASCII runes", pc)
				return
			case 1:
				rp.hiAll[pc] = true
			}
		}
	}
	for pc := range rp.hiAll {
		in := &p.Inst[pc]
		var succ []int
		rp.epsClosure(int(in.Out), map[int]bool{}, &succ)
		self := false
		for _, s := range succ {
			if s == pc {
				self = true
			} else if rp.hiAll[s] {
				rp.err = fmt.Sprintf("non-ASCII-admitting classes %d and %d are adjacent: a byte-wise split could fall inside a rune", pc, s)
				return
			}
		}
		if !self {
			rp.err = fmt.Sprintf("instruction %d matches a single non-ASCII rune (several bytes) outside a self-loop", pc)
			return
		}
	}
}

type rxRes struct {
	ok  *Term
	set []*Term // per capture slot: assigned on the successful path from here
	val []*Term // 64-bit position
}

type rxKey struct{ pc, pos int }

type rxRun struct {
	e    *Exec
	rp   *rxProg
	b    []*Term
	memo map[rxKey]*rxRes
	busy map[rxKey]bool
	fail *rxRes
}

func (r *rxRun) mkFail() *rxRes {
	if r.fail == nil {
		c := r.e.ctx
		n := 2 * (r.rp.ncap + 1)
		f := &rxRes{ok: c.False, set: make([]*Term, n), val: make([]*Term, n)}
		for i := range f.set {
			f.set[i], f.val[i] = c.False, c.Int(0)
		}
		r.fail = f
	}
	return r.fail
}

func (r *rxRun) m(pc, pos int) *rxRes {
	k := rxKey{pc, pos}
	if v, ok := r.memo[k]; ok {
		return v
	}
	if r.busy[k] {
		return r.mkFail()
	}
	r.busy[k] = true
	res := r.eval(pc, pos)
	delete(r.busy, k)
	r.memo[k] = res
	return res
}

func (r *rxRun) guard(g *Term, x *rxRes) *rxRes {
	if g.IsTrue() {
		return x
	}
	if g.IsFalse() || x.ok.IsFalse() {
		return r.mkFail()
	}
	return &rxRes{ok: r.e.ctx.And(g, x.ok), set: x.set, val: x.val}
}

func (r *rxRun) eval(pc, pos int) *rxRes {
	c := r.e.ctx
	in := &r.rp.prog.Inst[pc]
	n := len(r.b)
	switch in.Op {
	case syntax.InstFail:
		return r.mkFail()
	case syntax.InstMatch:
		f := r.mkFail()
		set := append([]*Term{}, f.set...)
		val := append([]*Term{}, f.val...)
		// implicit group 0: anchored patterns start at 0 and end here
		set[0], val[0] = c.True, c.Int(0)
		set[1], val[1] = c.True, c.Int(int64(pos))
		return &rxRes{ok: c.True, set: set, val: val}
	case syntax.InstNop:
		return r.m(int(in.Out), pos)
	case syntax.InstCapture:
		x := r.m(int(in.Out), pos)
		if x.ok.IsFalse() {
			return x
		}
		slot := int(in.Arg)
		if slot >= len(x.set) {
			return x
		}
		set := append([]*Term{}, x.set...)
		val := append([]*Term{}, x.val...)
		val[slot] = c.Ite(x.set[slot], x.val[slot], c.Int(int64(pos)))
		set[slot] = c.True
		return &rxRes{ok: x.ok, set: set, val: val}
	case syntax.InstEmptyWidth:
		g := c.True
		op := syntax.EmptyOp(in.Arg)
		if op&syntax.EmptyBeginText != 0 {
			g = c.And(g, c.Bool(pos == 0))
		}
		if op&syntax.EmptyEndText != 0 {
			g = c.And(g, c.Bool(pos == n))
		}
		if op&syntax.EmptyBeginLine != 0 {
			if pos != 0 {
				g = c.And(g, c.Eq(r.b[pos-1], c.BV('\n', 8)))
			}
		}
		if op&syntax.EmptyEndLine != 0 {
			if pos != n {
				g = c.And(g, c.Eq(r.b[pos], c.BV('\n', 8)))
			}
		}
		if g.IsFalse() {
			return r.mkFail()
		}
		return r.guard(g, r.m(int(in.Out), pos))
	case syntax.InstRune, syntax.InstRune1, syntax.InstRuneAny, syntax.InstRuneAnyNotNL:
		if pos >= n {
			return r.mkFail()
		}
		g := r.byteCond(pc, in, r.b[pos])
		if g.IsFalse() {
			return r.mkFail()
		}
		return r.guard(g, r.m(int(in.Out), pos+1))
	case syntax.InstAlt, syntax.InstAltMatch:
		a := r.m(int(in.Out), pos)
		if a.ok.IsTrue() {
			return a
		}
		b := r.m(int(in.Arg), pos)
		if a.ok.IsFalse() {
			return b
		}
		if b.ok.IsFalse() {
			return a
		}
		res := &rxRes{ok: c.Or(a.ok, b.ok), set: make([]*Term, len(a.set)), val: make([]*Term, len(a.val))}
		for i := range a.set {
			res.set[i] = c.Ite(a.ok, a.set[i], b.set[i])
			res.val[i] = c.Ite(a.ok, a.val[i], b.val[i])
		}
		return res
	}
	panic(unsupported{fmt.Sprintf("regexp instruction %v", in.Op)})
}

// byteCond: the byte-level acceptance condition of a rune instruction.
func (r *rxRun) byteCond(pc int, in *syntax.Inst, b *Term) *Term {
	c := r.e.ctx
	if b.IsConst() {
		if b.Val < 0x80 {
			return c.Bool(runeAdmitsASCII(in, rune(b.Val)))
		}
		return c.Bool(r.rp.hiAll[pc])
	}
	var ds []*Term
	// ASCII part as maximal ranges
	lo := -1
	for ch := 0; ch <= 0x80; ch++ {
		ok := ch < 0x80 && runeAdmitsASCII(in, rune(ch))
		if ok && lo < 0 {
			lo = ch
		}
		if !ok && lo >= 0 {
			hi := ch - 1
			if lo == hi {
				ds = append(ds, c.Eq(b, c.BV(uint64(lo), 8)))
			} else {
				ds = append(ds, c.And(c.Ule(c.BV(uint64(lo), 8), b), c.Ule(b, c.BV(uint64(hi), 8))))
			}
			lo = -1
		}
	}
	if r.rp.hiAll[pc] {
		ds = append(ds, c.Ule(c.BV(0x80, 8), b))
	}
	return c.Or(ds...)
}

// rxMatch runs the pattern over the concrete-length subject.
func (e *Exec) rxMatch(rv *RegexV, subj []*Term) *rxRes {
	rp := compileRx(rv.Pattern)
	if rp.err != "" {
		panic(unsupported{"regexp " + rv.Pattern + ": " + rp.err})
	}
	// all patterns must be anchored at the start (no leftmost search loop)
	first := &rp.prog.Inst[rp.prog.Start]
	anch := false
	{
		var succ []int
		seen := map[int]bool{}
		// walk through captures/nops to the first real instruction
		pc := rp.prog.Start
		for {
			in := &rp.prog.Inst[pc]
			if in.Op == syntax.InstCapture || in.Op == syntax.InstNop {
				pc = int(in.Out)
				continue
			}
			if in.Op == syntax.InstEmptyWidth && syntax.EmptyOp(in.Arg)&syntax.EmptyBeginText != 0 {
				anch = true
			}
			break
		}
		_, _, _ = succ, seen, first
	}
	if !anch {
		panic(unsupported{"regexp " + rv.Pattern + ": unanchored patterns are not modelled"})
	}
	run := &rxRun{e: e, rp: rp, b: subj, memo: map[rxKey]*rxRes{}, busy: map[rxKey]bool{}}
	e.note("regexp:" + rv.Pattern)
	return run.m(rp.prog.Start, 0)
}

func regexArg(v Value) *RegexV {
	p, ok := v.(*Pointer)
	if !ok || p == nil {
		panic(unsupported{"nil *regexp.Regexp"})
	}
	return (*p.Slot).(*RegexV)
}

func inRegexMatch(e *Exec, fn *ssa.Function, a []Value) Value {
	rv := regexArg(a[0])
	w := e.win(a[1])
	subj := e.winBytes(w)
	return e.rxMatch(rv, subj).ok
}

// inRegexFindSubmatch: nil when there is no match (one fork), otherwise a
// [][]byte whose elements are windows into the subject with symbolic
// offset/length.
func inRegexFindSubmatch(e *Exec, fn *ssa.Function, a []Value) Value {
	c := e.ctx
	rv := regexArg(a[0])
	subjV := a[1]
	w := e.win(subjV)
	off := int(e.pick(w.off))
	n := int(e.pick(w.len))
	subj := w.b[off : off+n]
	byteSliceT := fn.Signature.Results().At(0).Type()
	if sv, isStr := subjV.(*StringV); isStr {
		if cs, ok := e.concreteString(sv); ok {
			// concrete subject string: the real library decides (also unanchored patterns)
			m := regexp.MustCompile(rv.Pattern).FindStringSubmatchIndex(cs)
			if m == nil {
				return e.zero(byteSliceT)
			}
			elemT := byteSliceT.Underlying().(*types.Slice).Elem()
			out := e.newSlice(elemT, len(m)/2, len(m)/2, "FindStringSubmatch")
			for g := 0; g < len(m)/2; g++ {
				if m[2*g] < 0 {
					out.Arr.Elems[g] = e.zero(elemT)
					continue
				}
				out.Arr.Elems[g] = e.valFromWin(subjV, w.b, c.Int(int64(off+m[2*g])), c.Int(int64(m[2*g+1]-m[2*g])))
			}
			return out
		}
	}
	res := e.rxMatch(rv, subj)
	if !e.branch(res.ok) {
		return e.zero(byteSliceT)
	}
	rp := compileRx(rv.Pattern)
	ng := rp.ncap + 1
	elemT := byteSliceT.Underlying().(*types.Slice).Elem()
	out := e.newSlice(elemT, ng, ng, "FindSubmatch")
	for g := 0; g < ng; g++ {
		lo, hi := e.narrow(res.val[2*g]), e.narrow(res.val[2*g+1])
		set := c.And(res.set[2*g], res.set[2*g+1])
		if !e.branch(set) {
			out.Arr.Elems[g] = e.zero(elemT)
			continue
		}
		out.Arr.Elems[g] = e.valFromWin(subjV, w.b, c.Add(c.Int(int64(off)), lo), c.Sub(hi, lo))
		if sv, ok := out.Arr.Elems[g].(*SliceV); ok {
			// regexp caps each submatch: b[lo:hi:hi]
			sv.Cap = sv.Len
		}
	}
	return out
}
