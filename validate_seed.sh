#!/bin/bash
# usage: validate_seed.sh <seed-dir> <pkgdir>   (seed-dir holds patch.diff and demo_test.go)
# Confirms in a scratch worktree: patch applies, existing suite passes (baseline failure only),
# demo fails with the patch and passes without it.
export GOFLAGS=-mod=mod GOPROXY=off GOSUMDB=off GOTOOLCHAIN=local
sd="$1"; pkg="${2:-stack}"
wt=$(mktemp -d /tmp/vseed.XXXXXX); rmdir "$wt"
git -C /repo worktree add -q "$wt" HEAD || exit 2
trap 'git -C /repo worktree remove --force "$wt" >/dev/null 2>&1' EXIT
cd "$wt" || exit 2
git apply "$sd/patch.diff" || { echo "RESULT apply-failed"; exit 1; }
suite=$(go test -vet=off -count=1 ./... 2>&1 | grep -E "^(--- FAIL|FAIL|ok)" | grep -v "TestAugmentErr" )
nfail=$(echo "$suite" | grep -c "^--- FAIL")
pkgfail=$(echo "$suite" | grep "^FAIL" | grep -v "panicparse/v2/stack\s" | grep -vc "^FAIL$")
cp "$sd/demo_test.go" "$pkg/zz_demo_test.go"
go test -vet=off -count=1 -run 'Demo|ZZ|Seed|C[0-9][0-9]' ./$pkg > /tmp/vseed_with.log 2>&1; with=$?
git checkout -q -- . 
go test -vet=off -count=1 -run 'Demo|ZZ|Seed|C[0-9][0-9]' ./$pkg > /tmp/vseed_without.log 2>&1; without=$?
echo "RESULT suite_extra_fail=$nfail other_pkg_fail=$pkgfail demo_with_patch_exit=$with demo_without_patch_exit=$without"
