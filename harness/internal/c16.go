//go:build verif

package internal

// C16 — console rendering (reduced to structure and width arithmetic).
// writeBucketsToConsole / writeGoroutinesToConsole, calc*Lengths, BucketHeader,
// StackLines are executed from SSA on small aggregations whose text fields are
// symbolic bytes of concrete length; fmt.Sprintf is modelled exactly for the
// verbs used (%s %d %x, '-', '0', '*'), see engine/intrinsics.go.

import (
	"fmt"
	"regexp"

	"github.com/maruel/panicparse/v2/stack"
)

type vhOut struct{ parts []string }

func (o *vhOut) Write(p []byte) (int, error)       { o.parts = append(o.parts, string(p)); return len(p), nil }
func (o *vhOut) WriteString(s string) (int, error) { o.parts = append(o.parts, s); return len(s), nil }

func vhText(tag string, n int) string {
	b := vBytes(tag, n)
	for _, ch := range b {
		// printable ASCII, no escape character, no newline
		vAssume(vAnd(ch >= ' ', ch < 0x7f))
	}
	return string(b)
}

var vhPalette = &Palette{
	EOLReset: "\x1b[0m", RoutineFirst: "\x1b[1m", Routine: "\x1b[2m", CreatedBy: "\x1b[3m", Race: "\x1b[4m",
	Package: "\x1b[5m", SrcFile: "\x1b[6m", FuncMain: "\x1b[7m", FuncLocationUnknown: "\x1b[8m",
	FuncLocationUnknownExported: "\x1b[9m", FuncGoMod: "\x1b[10m", FuncGoModExported: "\x1b[11m",
	FuncGOPATH: "\x1b[12m", FuncGOPATHExported: "\x1b[13m", FuncGoPkg: "\x1b[14m", FuncGoPkgExported: "\x1b[15m",
	FuncStdLib: "\x1b[16m", FuncStdLibExported: "\x1b[17m", Arguments: "\x1b[18m",
}

var vhPlain = &Palette{}

// vhPaletteANSI uses the real shape of the default palette's codes (digits that
// also occur in hexadecimal addresses).
var vhPaletteANSI = &Palette{
	EOLReset: "\x1b[39m\x1b[m", RoutineFirst: "\x1b[1;35m", Routine: "\x1b[35m", CreatedBy: "\x1b[90m", Race: "\x1b[91m",
	Package: "\x1b[1;39m", SrcFile: "\x1b[39m\x1b[m", FuncMain: "\x1b[1;33m", FuncLocationUnknown: "\x1b[37m",
	FuncLocationUnknownExported: "\x1b[1;37m", FuncGoMod: "\x1b[31m", FuncGoModExported: "\x1b[1;31m",
	FuncGOPATH: "\x1b[36m", FuncGOPATHExported: "\x1b[1;36m", FuncGoPkg: "\x1b[34m", FuncGoPkgExported: "\x1b[1;34m",
	FuncStdLib: "\x1b[32m", FuncStdLibExported: "\x1b[1;32m", Arguments: "\x1b[39m\x1b[m",
}

func vhBucket(tag string, ncalls int, dirLens, srcLens []int) *stack.Bucket {
	b := &stack.Bucket{IDs: []int{1, 2}}
	b.State = vhText(tag+".state", 2)
	b.Locked = vBool(tag + ".locked")
	for i := 0; i < ncalls; i++ {
		c := stack.Call{}
		t := tag + ".c" + string(rune('0'+i))
		c.Func.DirName = vhText(t+".dir", dirLens[i])
		c.Func.Name = vhText(t+".fn", 1)
		c.SrcName = vhText(t+".src", srcLens[i])
		// full / relative paths: some frames lie under no detected root
		c.RemoteSrcPath = vhText(t+".remote", 3+srcLens[i])
		if (i+dirLens[i])%2 == 0 {
			c.LocalSrcPath = vhText(t+".local", 2+dirLens[i])
			c.RelSrcPath = vhText(t+".rel", 1+srcLens[i]%2)
		}
		c.Line = 12
		c.Args.Values = []stack.Arg{{Value: 1}}
		b.Stack.Calls = append(b.Stack.Calls, c)
	}
	b.Stack.Elided = vBool(tag + ".elided")
	return b
}

// expressions: contains 'X'; starts with a digit (sensitive to a leading colour
// code); contains an escape character
var vhFilters = []*regexp.Regexp{regexp.MustCompile(`^[^X]*X`), regexp.MustCompile(`^[0-9]`), regexp.MustCompile("^[^\x1b]*\x1b")}

func vhStrip(s string) string {
	var out []byte
	for i := 0; i < len(s); i++ {
		if s[i] == 0x1b {
			for i < len(s) && s[i] != 'm' {
				i++
			}
			continue
		}
		out = append(out, s[i])
	}
	return string(out)
}

func vhJoin(parts []string) string {
	s := ""
	for _, p := range parts {
		s += p
	}
	return s
}

// VH_C16_Buckets: every bucket is shown exactly once and in order (header, then
// its stack lines), column widths are the maxima over the whole output, the
// filter-out and match-only outputs split the unfiltered blocks in two, and
// removing the escape sequences of the coloured output gives the plain output.
//
//verif:prop C16
//verif:param k 1..3
//verif:param shape quick=0,1 thorough=0..3
//verif:param pfmt 0..2
//verif:param rx 0..2
func VH_C16_Buckets(k, shape, pfmt, rx int) {
	vhFilter := vhFilters[rx]
	dirs := [][]int{{1, 3}, {0, 2}, {4, 1}, {2, 2}}
	srcs := [][]int{{2, 1}, {3, 3}, {1, 4}, {0, 2}}
	a := &stack.Aggregated{}
	for i := 0; i < k; i++ {
		j := (i + shape) % 4
		a.Buckets = append(a.Buckets, vhBucket("b"+string(rune('0'+i)), 1+(i+shape)%2, dirs[j], srcs[j]))
	}
	a.Buckets[0].First = true
	pf := pathFormat(pfmt)
	// widths
	srcLen, pkgLen := calcBucketsLengths(a, pf)
	hitS, hitP := false, false
	for _, b := range a.Buckets {
		for i := range b.Stack.Calls {
			l := len(pf.formatCall(&b.Stack.Calls[i]))
			vAssert(srcLen >= l, "source column is at least as wide as every file:line")
			hitS = hitS || srcLen == l
			l = len(b.Stack.Calls[i].Func.DirName)
			vAssert(pkgLen >= l, "package column is at least as wide as every package name")
			hitP = hitP || pkgLen == l
		}
	}
	vAssert(hitS && hitP, "column widths are attained by some frame")
	// unfiltered, coloured
	all := &vhOut{}
	_ = writeBucketsToConsole(all, vhPalette, a, pf, false, nil, nil)
	vReach("buckets rendered")
	vAssert(len(all.parts) == 2*k, "one header and one stack block per bucket")
	if len(all.parts) != 2*k {
		return
	}
	multi := k > 1
	for i, b := range a.Buckets {
		vAssert(all.parts[2*i] == vhPalette.BucketHeader(b, pf, multi), "bucket header in order")
		vAssert(all.parts[2*i+1] == vhPalette.StackLines(&b.Signature, srcLen, pkgLen, pf), "bucket stack lines in order, aligned with the global widths")
		// one line per frame plus the elision marker
		lines := 0
		blk := all.parts[2*i+1]
		for j := 0; j < len(blk); j++ {
			if blk[j] == '\n' {
				lines++
			}
		}
		want := len(b.Stack.Calls)
		if b.Stack.Elided {
			want++
		}
		vAssert(lines == want, "one line per frame plus a marker where frames were elided")
	}
	// colour independence
	plain := &vhOut{}
	_ = writeBucketsToConsole(plain, vhPlain, a, pf, false, nil, nil)
	vAssert(vhStrip(vhJoin(all.parts)) == vhJoin(plain.parts), "removing the escape sequences gives the uncoloured output")
	// filter / match split
	fo, mo := &vhOut{}, &vhOut{}
	_ = writeBucketsToConsole(fo, vhPalette, a, pf, false, vhFilter, nil)
	_ = writeBucketsToConsole(mo, vhPalette, a, pf, false, nil, vhFilter)
	vAssert(len(fo.parts)+len(mo.parts) == 2*k, "filter-out and match-only outputs together hold every block once")
	fi, mi := 0, 0
	for i := range a.Buckets {
		h := all.parts[2*i]
		if vhFilter.MatchString(h) {
			ok := mi+1 < len(mo.parts) && mo.parts[mi] == h && mo.parts[mi+1] == all.parts[2*i+1]
			vAssert(ok, "a matching bucket appears in the match-only output, in order")
			mi += 2
		} else {
			ok := fi+1 < len(fo.parts) && fo.parts[fi] == h && fo.parts[fi+1] == all.parts[2*i+1]
			vAssert(ok, "a non-matching bucket appears in the filter-out output, in order")
			fi += 2
		}
	}
	// both expressions at once: shown iff the header matches the match
	// expression and does not match the filter
	m2 := vhFilters[(rx+1)%3]
	both := &vhOut{}
	_ = writeBucketsToConsole(both, vhPalette, a, pf, false, vhFilter, m2)
	bi := 0
	for i := range a.Buckets {
		h := all.parts[2*i]
		if !vhFilter.MatchString(h) && m2.MatchString(h) {
			ok := bi+1 < len(both.parts) && both.parts[bi] == h && both.parts[bi+1] == all.parts[2*i+1]
			vAssert(ok, "a bucket admitted by filter and match together is shown, in order")
			bi += 2
		}
	}
	vAssert(bi == len(both.parts), "nothing else is shown when filter and match are combined")
}

// vhRaceSnap: a race-report snapshot of k goroutines with symbolic state,
// package and file names.
func vhRaceSnap(k int) *stack.Snapshot {
	s := &stack.Snapshot{}
	for i := 0; i < k; i++ {
		g := &stack.Goroutine{ID: 10 + i, First: i == 0, RaceAddr: []uint64{0xc000012339, 0xc000012343, 0x1000}[i], RaceWrite: i%2 == 0}
		if i == 1 {
			cb := stack.Call{}
			cb.Func.DirName, cb.Func.Name, cb.SrcName, cb.Line = "main", "h", "c.go", 9
			g.CreatedBy.Calls = []stack.Call{cb}
		}
		g.State = vhText("g"+string(rune('0'+i))+".state", 2)
		c := stack.Call{}
		c.Func.DirName = vhText("g"+string(rune('0'+i))+".dir", 1+i)
		c.Func.Name = "f"
		c.SrcName = vhText("g"+string(rune('0'+i))+".src", 3-i)
		c.Line = 3
		g.Stack.Calls = []stack.Call{c}
		s.Goroutines = append(s.Goroutines, g)
	}
	return s
}

// VH_C16_Goroutines: the race rendering path (one block per goroutine).
//
//verif:prop C16
//verif:param k 1..3
//verif:param rx 0..2
func VH_C16_Goroutines(k, rx int) {
	s := vhRaceSnap(k)
	pf := basePath
	srcLen, pkgLen := calcGoroutinesLengths(s, pf)
	out := &vhOut{}
	_ = writeGoroutinesToConsole(out, vhPalette, s, pf, false, nil, nil)
	vReach("goroutines rendered")
	vAssert(len(out.parts) == 2*k, "one header and one stack block per goroutine")
	if len(out.parts) != 2*k {
		return
	}
	for i, g := range s.Goroutines {
		vAssert(out.parts[2*i] == vhPalette.GoroutineHeader(g, pf, k > 1), "goroutine header in order")
		vAssert(out.parts[2*i+1] == vhPalette.StackLines(&g.Signature, srcLen, pkgLen, pf), "goroutine stack lines in order")
		vAssert(srcLen >= len(pf.formatCall(&g.Stack.Calls[0])) && pkgLen >= len(g.Stack.Calls[0].Func.DirName), "columns wide enough for every goroutine")
	}
	// colour independence, with codes shaped like the default palette's
	col, plain := &vhOut{}, &vhOut{}
	_ = writeGoroutinesToConsole(col, vhPaletteANSI, s, pf, false, nil, nil)
	_ = writeGoroutinesToConsole(plain, vhPlain, s, pf, false, nil, nil)
	vAssert(vhStrip(vhJoin(col.parts)) == vhJoin(plain.parts), "removing the escape sequences of a race rendering gives the uncoloured output")
	// filter / match split
	vhFilter := vhFilters[rx]
	fo, mo := &vhOut{}, &vhOut{}
	_ = writeGoroutinesToConsole(fo, vhPalette, s, pf, false, vhFilter, nil)
	_ = writeGoroutinesToConsole(mo, vhPalette, s, pf, false, nil, vhFilter)
	vAssert(len(fo.parts)+len(mo.parts) == 2*k, "filter-out and match-only outputs together hold every goroutine once")
	m2 := vhFilters[(rx+1)%3]
	both := &vhOut{}
	_ = writeGoroutinesToConsole(both, vhPalette, s, pf, false, vhFilter, m2)
	bi := 0
	for i := 0; i < k; i++ {
		h := out.parts[2*i]
		if !vhFilter.MatchString(h) && m2.MatchString(h) {
			ok := bi+1 < len(both.parts) && both.parts[bi] == h && both.parts[bi+1] == out.parts[2*i+1]
			vAssert(ok, "a goroutine admitted by filter and match together is shown, in order")
			bi += 2
		}
	}
	vAssert(bi == len(both.parts), "nothing else is shown when filter and match are combined")
}

// VH_C14_ConsoleKeepsSnapshot: rendering a race snapshot to the console, with
// or without filter / match expressions (which hide some goroutines and keep
// others), writes nothing that existed before the call (engine write barrier);
// natively the goroutine list is compared before and after.
//
//verif:prop C14
//verif:param k 2..3
//verif:param rx 0..2
//verif:param mode 0..2
func VH_C14_ConsoleKeepsSnapshot(k, rx, mode int) {
	s := vhRaceSnap(k)
	before := append([]*stack.Goroutine{}, s.Goroutines...)
	var filter, match *regexp.Regexp
	switch mode {
	case 1:
		filter = vhFilters[rx]
	case 2:
		match = vhFilters[rx]
	}
	vBarrierOn()
	out := &vhOut{} // the writer is this call's own
	_ = writeGoroutinesToConsole(out, vhPalette, s, basePath, false, filter, match)
	vBarrierOff()
	vReach("race snapshot rendered under write barrier")
	vAssert(len(s.Goroutines) == k, "the snapshot keeps its goroutines")
	for i := range before {
		vAssert(s.Goroutines[i] == before[i] && s.Goroutines[i].ID == 10+i, "the snapshot's goroutine list is unchanged by rendering")
	}
	if mode != 0 && len(out.parts) != 0 && len(out.parts) != 2*k {
		vReach("some goroutines hidden, some shown")
	}
}

// ---- independent reference for the line formats (not built from the palette's
// own formatting functions)

// vhRunes counts characters: every byte that is not a UTF-8 continuation byte.
func vhRunes(s string) int {
	n := 0
	for i := 0; i < len(s); i++ {
		if s[i]&0xC0 != 0x80 {
			n++
		}
	}
	return n
}

func vhPad(s string, w int) string {
	for n := vhRunes(s); n < w; n++ {
		s += " "
	}
	return s
}

func vhItoa(n int) string { return fmt.Sprintf("%d", n) }

// vhRefWhere: file:line as the path format shows it.
func vhRefWhere(pf pathFormat, c *stack.Call) string {
	path := c.SrcName
	switch {
	case pf == relPath && c.RelSrcPath != "":
		path = c.RelSrcPath
	case pf != basePath && c.LocalSrcPath != "":
		path = c.LocalSrcPath
	case pf != basePath:
		path = c.RemoteSrcPath
	}
	return path + ":" + vhItoa(c.Line)
}

func vhRefCallLine(p *Palette, c *stack.Call, srcLen, pkgLen int, pf pathFormat) string {
	return "    " + p.Package + vhPad(c.Func.DirName, pkgLen) + " " + p.SrcFile + vhPad(vhRefWhere(pf, c), srcLen) + " " +
		p.functionColor(c) + c.Func.Name + p.Arguments + "(" + c.Args.String() + ")" + p.EOLReset
}

// vhRefExtra: sleep, lock and creator annotations of a header; the creator shown
// is the function containing the go statement, i.e. the first creator frame.
func vhRefExtra(p *Palette, s *stack.Signature, pf pathFormat) string {
	extra := ""
	if t := s.SleepString(); t != "" {
		extra += " [" + t + "]"
	}
	if s.Locked {
		extra += " [locked]"
	}
	if len(s.CreatedBy.Calls) != 0 {
		c := &s.CreatedBy.Calls[0]
		extra += p.CreatedBy + " [Created by " + c.Func.DirName + "." + c.Func.Name + " @ " + vhRefWhere(pf, c) + "]"
	}
	return extra
}

// VH_C16_Lines: the header and frame lines themselves against a reference
// written from the documented layout: four blanks, package column and file:line
// column padded (in characters) to the global widths, function, arguments;
// header = count or id, state, sleep range, lock marker, creator (first creator
// frame), race access. names: 0 = symbolic printable ASCII, 1 = non-ASCII
// package and file names of different lengths in bytes and characters.
//
//verif:prop C16
//verif:param names 0..1
//verif:param pfmt 0..2
//verif:param ncreator 0..2
//verif:param sleep 0..2
func VH_C16_Lines(names, pfmt, ncreator, sleep int) {
	pf := pathFormat(pfmt)
	b := &stack.Bucket{IDs: []int{1, 2, 3}}
	b.State = vhText("state", 2)
	b.Locked = vBool("locked")
	b.SleepMin, b.SleepMax = []int{0, 5, 2}[sleep], []int{0, 5, 9}[sleep]
	dirs := []string{vhText("d0", 1), vhText("d1", 3)}
	srcs := []string{vhText("s0", 4), vhText("s1", 2)}
	if names == 1 {
		dirs = []string{"caf\xc3\xa9", "na\xc3\xafvet\xc3\xa9x"}
		srcs = []string{"r\xc3\xa9sum\xc3\xa9.go", "a.go"}
	}
	for i := 0; i < 2; i++ {
		c := stack.Call{}
		c.Func.DirName, c.Func.Name, c.SrcName = dirs[i], "f", srcs[i]
		c.RemoteSrcPath = "/r/" + srcs[i]
		if i == 1 {
			c.LocalSrcPath, c.RelSrcPath = "/l/"+srcs[i], srcs[i]
		}
		c.Func.IsExported = vBool("exp" + string(rune('0'+i)))
		c.Location = stack.GoMod
		c.Line = 7 + i
		c.Args.Values = []stack.Arg{{Value: 1}}
		b.Stack.Calls = append(b.Stack.Calls, c)
	}
	for i := 0; i < ncreator; i++ {
		c := stack.Call{}
		c.Func.DirName, c.Func.Name, c.SrcName = "main", string(rune('g'+i)), string(rune('x'+i))+".go"
		c.RemoteSrcPath, c.Line = "/r/"+c.SrcName, 20+i
		b.CreatedBy.Calls = append(b.CreatedBy.Calls, c)
	}
	a := &stack.Aggregated{Buckets: []*stack.Bucket{b}}
	srcLen, pkgLen := calcBucketsLengths(a, pf)
	vReach("lines rendered")
	for _, p := range []*Palette{vhPalette, vhPlain} {
		for i := range b.Stack.Calls {
			c := &b.Stack.Calls[i]
			vAssert(p.callLine(c, srcLen, pkgLen, pf) == vhRefCallLine(p, c, srcLen, pkgLen, pf), "frame line: columns padded in characters to the global widths")
		}
		for _, multi := range []bool{false, true} {
			want := p.routineColor(b.First, multi) + vhItoa(len(b.IDs)) + ": " + b.State + vhRefExtra(p, &b.Signature, pf) + p.EOLReset + "\n"
			vAssert(p.BucketHeader(b, pf, multi) == want, "bucket header: count, state, sleep, lock, creator")
		}
		g := &stack.Goroutine{Signature: b.Signature, ID: 42, RaceAddr: 0xc000012339, RaceWrite: vBool("racewrite")}
		kind := "read"
		if g.RaceWrite {
			kind = "write"
		}
		want := p.routineColor(false, true) + "42: " + g.State + vhRefExtra(p, &g.Signature, pf) + p.EOLReset + p.Race + " Race " + kind + " @ 0x" + fmt.Sprintf("%08x", g.RaceAddr) + p.EOLReset + "\n"
		vAssert(p.GoroutineHeader(g, pf, true) == want, "race goroutine header: id, state, creator, access kind and address")
	}
}
