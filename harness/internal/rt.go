//go:build verif

package internal

// Harness runtime. The symbolic engine intercepts every function in this file
// by name and never executes the bodies; compiled natively the same functions
// read a replay vector (the solver's model), so a harness is also an ordinary
// Go function that can be run against the real build.

import (
	"encoding/json"
	"fmt"
	"os"
	"path/filepath"
	"unsafe"
)

var vReplay = map[string]uint64{}
var vSeq = map[string]int{}

// vLoadReplay loads the model written by the engine.
func vLoadReplay(path string) {
	b, err := os.ReadFile(path)
	if err != nil {
		panic(err)
	}
	var r struct {
		Model map[string]uint64 `json:"model"`
	}
	if err := json.Unmarshal(b, &r); err != nil {
		panic(err)
	}
	vReplay = r.Model
	vSeq = map[string]int{}
}

func vName(name string) string {
	n := vSeq[name]
	vSeq[name] = n + 1
	if n > 0 {
		return fmt.Sprintf("%s#%d", name, n)
	}
	return name
}

func vByte(name string) byte   { return byte(vReplay[vName(name)]) }
func vInt(name string) int     { return int(vReplay[vName(name)]) }
func vU64(name string) uint64  { return vReplay[vName(name)] }
func vBool(name string) bool   { return vReplay[vName(name)] != 0 }
func vConcretize(x int) int    { return x }
func vSymbolic() bool          { return false }
func vBarrierOn()              {}
func vBarrierOff()             {}
func vNote(string)             {}
func vAliases(s string) bool   { return false }

// vSharesMemory reports whether the backing arrays of a and b overlap; vStrSharesMemory
// does the same for a string's bytes.
func vSharesMemory(a, b []byte) bool {
	if cap(a) == 0 || cap(b) == 0 {
		return false
	}
	pa := uintptr(unsafe.Pointer(&a[:1][0]))
	pb := uintptr(unsafe.Pointer(&b[:1][0]))
	return pa < pb+uintptr(cap(b)) && pb < pa+uintptr(cap(a))
}

func vStrSharesMemory(s string, b []byte) bool {
	if len(s) == 0 || cap(b) == 0 {
		return false
	}
	ps := uintptr(unsafe.Pointer(unsafe.StringData(s)))
	pb := uintptr(unsafe.Pointer(&b[:1][0]))
	return ps < pb+uintptr(cap(b)) && pb < ps+uintptr(len(s))
}
func vKnown(id string) bool    { return os.Getenv("VERIF_KNOWN_"+id) != "" }

func vBytes(name string, n int) []byte {
	b := make([]byte, n)
	for i := range b {
		b[i] = byte(vReplay[vName(fmt.Sprintf("%s[%d]", name, i))])
	}
	return b
}

func vString(name string, n int) string { return string(vBytes(name, n)) }

func vAssume(c bool) {
	if !c {
		fmt.Println("REPLAY-ASSUME-FAIL")
		panic("REPLAY-ASSUME-FAIL")
	}
}

func vAssert(c bool, label string) {
	if !c {
		fmt.Printf("REPLAY-ASSERT-FAIL %s\n", label)
	}
}

func vReach(label string) {}

// vTempRoot / vSetFile: a tiny file system for harnesses that probe the disk.
// Natively the files are really created under a fresh temporary directory.
var vRootDir string

func vTempRoot() string {
	d, err := os.MkdirTemp("", "vroot")
	if err != nil {
		panic(err)
	}
	vRootDir = d
	return d
}

func vSetFile(p string) {
	if err := os.MkdirAll(filepath.Dir(p), 0o755); err != nil {
		panic(err)
	}
	if err := os.WriteFile(p, []byte("x"), 0o644); err != nil {
		panic(err)
	}
}

// vChoose returns a byte of alphabet selected by replayed selector bits.
func vChoose(name string, alphabet string) byte {
	nbits := 0
	for (1 << nbits) < len(alphabet) {
		nbits++
	}
	idx := 0
	for i := 0; i < nbits; i++ {
		if vBool(fmt.Sprintf("%s.b%d", name, i)) {
			idx += 1 << i
		}
	}
	return alphabet[idx%len(alphabet)]
}

// Branch-free boolean connectives (the engine maps them to term operations so
// that harness assertions do not fork paths).
func vAnd(a, b bool) bool     { return a && b }
func vOr(a, b bool) bool      { return a || b }
func vNot(a bool) bool        { return !a }
func vImplies(a, b bool) bool { return !a || b }
func vIte(c bool, a, b int) int {
	if c {
		return a
	}
	return b
}

