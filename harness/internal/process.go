//go:build verif

package internal

// C02 (CLI level, function process): the output of process() is its input with
// each dump replaced by its rendering; pass-through text survives byte for byte
// and in order; it returns nil on EOF.

import (
	"io"

	"github.com/maruel/panicparse/v2/stack"
)

type vhIn struct {
	data []byte
	pos  int
}

func (f *vhIn) Read(p []byte) (int, error) {
	if f.pos == len(f.data) {
		return 0, io.EOF
	}
	n := copy(p, f.data[f.pos:])
	f.pos += n
	return n, nil
}

type vhBuf struct{ b []byte }

func (w *vhBuf) Write(p []byte) (int, error)       { w.b = append(w.b, p...); return len(p), nil }
func (w *vhBuf) WriteString(s string) (int, error) { w.b = append(w.b, s...); return len(s), nil }

func vhTextLine(tag string) []byte {
	return []byte{vChoose(tag+"0", "aG0%:(.W"), vChoose(tag+"1", "a 0\t(:).g=%,[]{"), vChoose(tag+"2", "a 0\t(:.g=%,[]{}"), '\n'}
}

func vhDump(tag string, n int) []byte {
	var out []byte
	for i := 0; i < n; i++ {
		out = append(out, []byte("goroutine ")...)
		out = append(out, vChoose(tag+string(rune('0'+i))+".id", "12345679"))
		out = append(out, []byte(" [running]:\nmain.")...)
		out = append(out, vChoose(tag+string(rune('0'+i))+".fn", "fGx_"))
		out = append(out, []byte("(0x1)\n\t/a.go:1 +0x1\n\n")...)
	}
	return out
}

// vhRender: what the command prints for one dump, computed by parsing that dump
// alone and calling the renderer.
func vhRender(dump []byte, out io.Writer) {
	opts := stack.DefaultOpts()
	opts.GuessPaths = false
	opts.AnalyzeSources = false
	c, _, _ := stack.ScanSnapshot(&vhIn{data: dump}, &vhBuf{}, opts)
	if c == nil {
		return
	}
	needsEnv := len(c.Goroutines) == 1 && showBanner()
	_ = writeBucketsToConsole(out, &Palette{}, c.Aggregate(stack.AnyPointer), basePath, needsEnv, nil, nil)
}

// VH_C02_Process: streams text / dump / text / dump / text through process().
//
//verif:prop C02
//verif:param shape 0..6
func VH_C02_Process(shape int) {
	var in, want []byte
	exp := &vhBuf{}
	text := func(tag string) {
		t := vhTextLine(tag)
		in = append(in, t...)
		exp.b = append(exp.b, t...)
	}
	dump := func(tag string, n int) {
		d := vhDump(tag, n)
		in = append(in, d...)
		vhRender(d, exp)
	}
	switch shape {
	case 0:
		text("t0")
		text("t1")
	case 1:
		text("t0")
		dump("d0", 1)
		text("t1")
	case 2:
		dump("d0", 2)
		text("t1")
	case 3:
		text("t0")
		dump("d0", 1)
		text("t1")
		dump("d1", 2)
		text("t2")
	case 4:
		dump("d0", 1)
	case 5:
		// the input ends with a text line that has no newline
		text("t0")
		dump("d0", 1)
		t := vhTextLine("t1")
		in = append(in, t[:3]...)
		exp.b = append(exp.b, t[:3]...)
	default:
		dump("d0", 2)
		t := vhTextLine("t1")
		in = append(in, t[:2]...)
		exp.b = append(exp.b, t[:2]...)
	}
	want = exp.b
	out := &vhBuf{}
	err := process(&vhIn{data: in}, out, &Palette{}, stack.AnyPointer, basePath, false, false, "", nil, nil)
	vReach("stream processed")
	vAssert(err == nil, "process returns nil at the end of the input")
	vAssert(len(out.b) == len(want), "output is the input with each dump replaced by its rendering (length)")
	if len(out.b) == len(want) {
		same := true
		for i := range want {
			same = vAnd(same, out.b[i] == want[i])
		}
		vAssert(same, "output is the input with each dump replaced by its rendering")
	}
}

// VH_C03_Process: malformed and truncated streams through the CLI loop: it
// terminates (the interpreter's step bound would flag a loop), never panics,
// and reports a malformed dump through its error result.
//
//verif:prop C03
//verif:param shape 0..7
func VH_C03_Process(shape int) {
	var in []byte
	add := func(s string) { in = append(in, s...) }
	switch shape {
	case 0: // header followed by text
		add("goroutine 1 [running]:\n")
		in = append(in, vhTextLine("t0")...)
	case 1: // header only, no newline
		add("goroutine 1 [running]:")
	case 2: // function line without file line, then another header
		add("goroutine 1 [running]:\nmain.f()\ngoroutine 2 [running]:\n")
	case 3: // stray race separator and warning
		add("==================\nWARNING: DATA RACE\n")
		in = append(in, vhTextLine("t0")...)
	case 4: // race report cut after the operation header
		add("==================\nWARNING: DATA RACE\nRead at 0x00c000010000 by goroutine 7:\n")
	case 5: // indentation that changes
		add("  goroutine 1 [running]:\n  main.f()\n \t/a.go:1\n")
	case 6: // bad symbol escape
		add("goroutine 1 [running]:\nmain.%zz()\n\t/a.go:1 +0x1\n\n")
		in = append(in, vhTextLine("t0")...)
	default: // unbalanced argument brackets, overlong numbers
		add("goroutine 12345678901234567890 [running]:\ngoroutine 1 [running]:\nmain.f({0x1}}, 0x2)\n\t/a.go:99999999999999999999 +0x1\n")
	}
	out := &vhBuf{}
	err := process(&vhIn{data: in}, out, &Palette{}, stack.AnyValue, fullPath, false, false, "", nil, nil)
	vReach("malformed stream processed")
	_ = err
	vAssert(len(out.b) >= 0, "process returned")
}

// vhStaged delivers data[:cut], then blocks (the observation point of C11:
// what has been written by then is recorded), then delivers the rest.
type vhStaged struct {
	data       []byte
	pos, cut   int
	out        *vhBuf
	stalled    bool
	outAtStall int
}

func (f *vhStaged) Read(p []byte) (int, error) {
	if f.pos == f.cut && !f.stalled {
		// nothing more is available: a real Read would block here
		f.stalled = true
		f.outAtStall = len(f.out.b)
	}
	if f.pos == len(f.data) {
		return 0, io.EOF
	}
	end := len(f.data)
	if f.pos < f.cut {
		end = f.cut
	}
	n := copy(p, f.data[f.pos:end])
	f.pos += n
	return n, nil
}

// VH_C11_Process: the command loop as a live filter: text, a dump, three more
// text lines; the producer delivers everything up to a line boundary and
// blocks. At that moment the output already holds every complete pass-through
// line delivered so far, and the rendering of the dump once the line that ends
// it has been delivered. cut: 0 = blocks before the dump, 1 = after the line
// that ends the dump, 2 = one line later, 3 = two lines later.
//
// Run at the real reader buffer size (what is pushed back after a dump is
// smaller than the buffer, as in the command).
//
//verif:prop C11
//verif:realsize
//verif:param cut 0..3
//verif:param n 1..2
func VH_C11_Process(cut, n int) {
	var in []byte
	exp := &vhBuf{}
	marks := []int{}    // input offsets of the blocking points
	expAt := []int{}    // expected output length at each
	text := func(tag string) {
		t := vhTextLine(tag)
		in = append(in, t...)
		exp.b = append(exp.b, t...)
	}
	text("t0")
	marks, expAt = append(marks, len(in)), append(expAt, len(exp.b))
	d := vhDump("d0", n)
	in = append(in, d...)
	vhRender(d, exp)
	for _, tag := range []string{"t1", "t2", "t3"} {
		text(tag)
		marks, expAt = append(marks, len(in)), append(expAt, len(exp.b))
	}
	text("t4")
	out := &vhBuf{}
	f := &vhStaged{data: in, cut: marks[cut], out: out}
	err := process(f, out, &Palette{}, stack.AnyPointer, basePath, false, false, "", nil, nil)
	vReach("stream processed through a blocking producer")
	vAssert(err == nil, "process returns nil at the end of the input")
	vAssert(f.stalled, "the producer's blocking point was reached")
	vAssert(f.outAtStall == expAt[cut], "when the producer blocks, every complete line delivered so far (and the finished dump) has been written")
	vAssert(len(out.b) == len(exp.b), "the whole output is produced in the end")
}
