//go:build verif

package stack

// C08 — race detector report fidelity: one step per harness, lines built from a
// model of tsan's Go report printer, pre-states symbolic under Inv.

// VH_C08_Operation: "Read|Write at 0xADDR by goroutine N:" opens the report,
// "Previous read|write at ..." adds one goroutine per further operation.
//
//verif:prop C08
//verif:param prev 0..1
//verif:param write 0..1
//verif:param ak quick=1,12 thorough=1,8,12,16
//verif:param idk quick=1,18 thorough=1,2,18
//verif:param ng quick=1,2 thorough=1..3
//verif:param eol 0..1
//verif:summarize atou
func VH_C08_Operation(prev, write, ak, idk, ng, eol int) {
	var s *scanningState
	if prev == 0 {
		s = vhPre(int(gotRaceHeader2), 0, 0, 0, 0, 0)
		ng = 0
	} else {
		s = vhPre(int(betweenRaceOperations), 0, ng, 1, 0, 0)
	}
	ad, addr := vhHex("addr", ak)
	idd, id := vhDigits("id", idk)
	var head string
	switch {
	case prev == 0 && write == 1:
		head = "Write at 0x"
	case prev == 0:
		head = "Read at 0x"
	case write == 1:
		head = "Previous write at 0x"
	default:
		head = "Previous read at 0x"
	}
	line := vhCat([]byte(head), ad, []byte(" by goroutine "), idd, []byte(":"), vhEOL(eol))
	before := vhRemember(s)
	proc, err := s.scan(line)
	vReach("race operation header scanned")
	vAssert(proc && err == nil, "operation header consumed without error")
	vAssert(s.state == gotRaceOperationHeader, "state after an operation header")
	vAssert(len(s.Goroutines) == ng+1, "one goroutine per operation")
	if len(s.Goroutines) != ng+1 {
		return
	}
	vhUnchanged(s, before, ng, "earlier operations untouched")
	g := s.Goroutines[ng]
	vAssert(g.ID == id, "operation goroutine id")
	vAssert(g.RaceAddr == addr, "operation address")
	vAssert(g.RaceWrite == (write == 1), "read/write kind")
	vAssert(g.First == (ng == 0), "only the first operation is first")
	vAssert(len(g.Stack.Calls) == 0 && len(g.CreatedBy.Calls) == 0 && g.State == "", "new race goroutine starts empty")
	vAssert(s.goroutineIndex == ng, "current race goroutine")
	if ng == 0 {
		vAssert(s.Snapshot.IsRace() == (addr != 0), "reported as a race")
	}
}

// VH_C08_Frame: indented function line and its file line inside an operation
// stack (kind 0) or a creation stack (kind 1).
//
//verif:prop C08
//verif:param kind 0..1
//verif:param first 0..1
//verif:param tmpl quick=0,2,6 thorough=0..7
//verif:param ashape quick=0,4 thorough=0..8
//verif:param ind quick=2 thorough=0,2,4
//verif:param gi 0..2
//verif:param eol 0..1
func VH_C08_Frame(kind, first, tmpl, ashape, ind, gi, eol int) {
	var s *scanningState
	var from, to state
	switch {
	case kind == 0 && first == 1:
		from, to = gotRaceOperationHeader, gotRaceOperationFunc
		s = vhPre(int(from), 0, 2, 0, 0, 1)
	case kind == 0:
		from, to = gotRaceOperationFile, gotRaceOperationFunc
		s = vhPre(int(from), 0, 2, 1, 0, 1)
	case first == 1:
		from, to = gotRaceGoroutineHeader, gotRaceGoroutineFunc
		s = vhPre(int(from), 0, 3, 1, 0, gi)
	default:
		from, to = gotRaceGoroutineFile, gotRaceGoroutineFunc
		s = vhPre(int(from), 0, 3, 1, 1, gi)
		if gi != 2 && len(s.Goroutines[gi].CreatedBy.Calls) == 0 {
			s.Goroutines[gi].CreatedBy.Calls = []Call{vhCallSym("pre.cb")}
		}
	}
	if kind == 0 && gi != 0 {
		return
	}
	raw, imp, name := vhSymbol("sym", tmpl)
	atxt, want := vhArgsModel("arg", ashape)
	var lead []byte
	for i := 0; i < ind; i++ {
		lead = append(lead, ' ')
	}
	line := vhCat(lead, raw, []byte("("), atxt, []byte(")"), vhEOL(eol))
	target := len(s.Goroutines) - 1
	if kind == 1 {
		target = gi
	}
	before := vhRemember(s)
	proc, err := s.scan(line)
	vReach("race frame line scanned")
	vAssert(proc && err == nil, "race frame function line consumed without error")
	vAssert(s.state == to, "state after a race frame function line")
	for i := range s.Goroutines {
		if i != target {
			vAssert(vhSigEq(&s.Goroutines[i].Signature, &before[i].sg), "frame is attributed to the right goroutine only")
		}
	}
	g := s.Goroutines[target]
	var calls, old []Call
	if kind == 0 {
		calls, old = g.Stack.Calls, before[target].sg.Stack.Calls
		vAssert(vhStackEq(&g.CreatedBy, &before[target].sg.CreatedBy), "creation stack untouched by an operation frame")
	} else {
		calls, old = g.CreatedBy.Calls, before[target].sg.CreatedBy.Calls
		vAssert(vhStackEq(&g.Stack, &before[target].sg.Stack), "operation stack untouched by a creation frame")
	}
	vAssert(len(calls) == len(old)+1, "exactly one frame appended")
	if len(calls) != len(old)+1 {
		return
	}
	vAssert(vhStackEq(&Stack{Calls: calls[:len(old)]}, &Stack{Calls: old}), "earlier frames untouched")
	c := &calls[len(old)]
	complete := name
	if tmpl != 5 {
		complete = imp + "." + name
	}
	vAssert(c.Func.Complete == complete && c.Func.ImportPath == imp && c.Func.Name == name, "race frame symbol")
	vAssert(vhArgsSame(&c.Args, &want), "race frame arguments")
}

// VH_C08_FrameFile: the file line of a race frame.
//
//verif:prop C08
//verif:param kind 0..1
//verif:param pshape quick=2,5 thorough=0..6
//verif:param lnk quick=2 thorough=1,18
//verif:param gi 0..2
//verif:param eol 0..1
//verif:summarize atou
func VH_C08_FrameFile(kind, pshape, lnk, gi, eol int) {
	var s *scanningState
	var to state
	if kind == 0 {
		s, to = vhPre(int(gotRaceOperationFunc), 0, 2, 2, 0, 1), gotRaceOperationFile
		if gi != 0 {
			return
		}
	} else {
		s, to = vhPre(int(gotRaceGoroutineFunc), 0, 3, 1, 2, gi), gotRaceGoroutineFile
		if gi != 2 && len(s.Goroutines[gi].CreatedBy.Calls) == 0 {
			s.Goroutines[gi].CreatedBy.Calls = []Call{vhCallSym("pre.cb0"), vhCallSym("pre.cb1")}
		}
	}
	path, srcName, dirSrc := vhPathModel("path", pshape)
	ld, ln := vhDigits("ln", lnk)
	line := vhCat([]byte("      "), []byte(path), []byte(":"), ld, []byte(" +0x1d"), vhEOL(eol))
	vAssume(vAnd(path[0] != ' ', path[0] != '\t'))
	target := len(s.Goroutines) - 1
	if kind == 1 {
		target = gi
	}
	before := vhRemember(s)
	proc, err := s.scan(line)
	vReach("race file line scanned")
	vAssert(proc && err == nil, "race file line consumed without error")
	vAssert(s.state == to, "state after a race file line")
	for i := range s.Goroutines {
		if i != target {
			vAssert(vhSigEq(&s.Goroutines[i].Signature, &before[i].sg), "file line is attributed to the right goroutine only")
		}
	}
	g := s.Goroutines[target]
	var calls, old []Call
	if kind == 0 {
		calls, old = g.Stack.Calls, before[target].sg.Stack.Calls
	} else {
		calls, old = g.CreatedBy.Calls, before[target].sg.CreatedBy.Calls
	}
	vAssert(len(calls) == len(old), "no frame added or dropped by a file line")
	if len(calls) != len(old) || len(calls) == 0 {
		return
	}
	last := len(calls) - 1
	vAssert(vhStackEq(&Stack{Calls: calls[:last]}, &Stack{Calls: old[:last]}), "earlier frames untouched")
	c := &calls[last]
	vAssert(c.RemoteSrcPath == path && c.Line == ln && c.SrcName == srcName && c.DirSrc == dirSrc, "race frame file and line")
	vAssert(c.Func.Complete == old[last].Func.Complete, "race frame function untouched by its file line")
}

// VH_C08_Goroutine: "Goroutine N (running|finished) created at:" selects the
// first goroutine with that id, or is an error that changes nothing.
//
//verif:prop C08
//verif:param from 14,18
//verif:param fin 0..1
//verif:param idk quick=1,2 thorough=1,2,18
//verif:param ng quick=2,3 thorough=1..3
//verif:param eol 0..1
//verif:summarize atou
func VH_C08_Goroutine(from, fin, idk, ng, eol int) {
	s := vhPre(from, 0, ng, 1, 0, 0)
	idd, id := vhDigits("id", idk)
	st := "running"
	if fin == 1 {
		st = "finished"
	}
	line := vhCat([]byte("Goroutine "), idd, []byte(" ("), []byte(st), []byte(") created at:"), vhEOL(eol))
	before := vhRemember(s)
	giBefore := s.goroutineIndex
	proc, err := s.scan(line)
	vReach("race goroutine header scanned")
	// index of the first goroutine with that id, or -1
	want := -1
	for i := ng - 1; i >= 0; i-- {
		want = vIte(before[i].id == id, i, want)
	}
	if err != nil {
		vAssert(want == -1, "an error is reported only for a goroutine that took part in no operation")
		vAssert(!proc && s.state == state(from) && s.goroutineIndex == giBefore, "an unknown goroutine changes nothing")
		vhUnchanged(s, before, ng, "an unknown goroutine is never attributed to another one")
		return
	}
	vAssert(proc, "goroutine header consumed")
	vAssert(want != -1, "a goroutine that took part in no operation is an error")
	vAssert(s.state == gotRaceGoroutineHeader, "state after a race goroutine header")
	vAssert(s.goroutineIndex == want, "creation section attached to the goroutine with that id")
	for i, g := range s.Goroutines {
		hit := i == s.goroutineIndex
		if hit {
			vAssert(g.State == st, "running/finished state recorded")
			vAssert(vAnd(g.ID == before[i].id, vhStackEq(&g.Stack, &before[i].sg.Stack)), "selected goroutine otherwise unchanged")
		} else {
			vAssert(vhSigEq(&g.Signature, &before[i].sg), "other goroutines unchanged")
		}
	}
}

// VH_C08_End: blank lines between sections and the closing separator.
//
//verif:prop C08
//verif:param kind 0..2
//verif:param eol 0..1
func VH_C08_End(kind, eol int) {
	var s *scanningState
	var line []byte
	var want state
	switch kind {
	case 0:
		s, want = vhPre(int(gotRaceOperationFile), 0, 2, 1, 0, 1), betweenRaceOperations
	case 1:
		s, want = vhPre(int(gotRaceGoroutineFile), 0, 2, 1, 1, 0), betweenRaceGoroutines
	default:
		s, want = vhPre(int(gotRaceGoroutineFile), 0, 2, 1, 1, 0), done
		line = []byte(vhSep)
	}
	line = vhCat(line, vhEOL(eol))
	before := vhRemember(s)
	proc, err := s.scan(line)
	vReach("race section end scanned")
	vAssert(proc && err == nil, "section end consumed without error")
	vAssert(s.state == want, "state after a section end")
	vhUnchanged(s, before, 2, "section end changes no goroutine")
}

// VH_C08_DeepReport: a whole report through ScanSnapshot with stacks deeper
// than the one-step harnesses build: two operations with n1 and n2 frames, a
// creation section for each goroutine with m1 and m2 frames, every frame with
// its own function letter (symbolic) and line. Every goroutine carries exactly
// its own frames, in order - in particular a stack growing past a capacity
// boundary never spills into another stack.
//
//verif:prop C08
//verif:param n1 1,4,5,6
//verif:param n2 1,2,5
//verif:param m1 1,5
//verif:param m2 1,2
func VH_C08_DeepReport(n1, n2, m1, m2 int) {
	var data []byte
	add := func(s string) { data = append(data, s...) }
	line := 0
	type fr struct {
		fn   byte
		line int
	}
	frames := func(tag string, n int) []fr {
		var out []fr
		for i := 0; i < n; i++ {
			line++
			f := fr{fn: vChoose(tag+string(rune('0'+i)), "fghk"), line: line}
			out = append(out, f)
			add("  main.")
			data = append(data, f.fn)
			add("()\n      /a.go:")
			add(string(rune('0'+line/10)) + string(rune('0'+line%10)))
			add(" +0x1\n")
		}
		add("\n")
		return out
	}
	add(vhSep + "\n" + vhWarn + "\n")
	add("Write at 0x00c000010000 by goroutine 7:\n")
	op1 := frames("a", n1)
	add("Previous read at 0x00c000010000 by goroutine 6:\n")
	op2 := frames("b", n2)
	add("Goroutine 7 (running) created at:\n")
	cr1 := frames("c", m1)
	add("Goroutine 6 (finished) created at:\n")
	cr2 := frames("d", m2)
	data = data[:len(data)-1] // the closing separator follows the last frame directly
	add(vhSep + "\n")
	f := &vhFeeder{data: data}
	w := &vhSink{}
	s, _, err := ScanSnapshot(f, w, &Opts{})
	vReach("deep report scanned")
	vAssert(s != nil && err == nil, "the report is parsed")
	if s == nil {
		return
	}
	vAssert(len(s.Goroutines) == 2, "one goroutine per operation")
	if len(s.Goroutines) != 2 {
		return
	}
	check := func(got []Call, want []fr, what string) {
		vAssert(len(got) == len(want), what+": number of frames")
		if len(got) != len(want) {
			return
		}
		for i := range want {
			vAssert(vAnd(len(got[i].Func.Name) == 1, got[i].Line == want[i].line), what+": frame line")
			if len(got[i].Func.Name) == 1 {
				vAssert(got[i].Func.Name[0] == want[i].fn, what+": frame function")
			}
		}
	}
	g1, g2 := s.Goroutines[0], s.Goroutines[1]
	vAssert(g1.ID == 7 && g2.ID == 6 && g1.RaceWrite && !g2.RaceWrite, "ids and kinds in printed order")
	vAssert(g1.State == "running" && g2.State == "finished", "running/finished state per goroutine")
	check(g1.Stack.Calls, op1, "first operation stack")
	check(g2.Stack.Calls, op2, "second operation stack")
	check(g1.CreatedBy.Calls, cr1, "first creation stack")
	check(g2.CreatedBy.Calls, cr2, "second creation stack")
}
