//go:build verif

package stack

// Shared infrastructure for the one-step (L-step) harnesses over scan():
// symbolic pre-states satisfying the representation invariant Inv
// (DESIGN.md appendix A) and symbolic lines as readLine delivers them.

const vhNumStates = int(betweenRaceGoroutines) + 1

// vhCallSym returns a call with symbolic scalar contents.
func vhCallSym(tag string) Call {
	c := Call{}
	c.Func.Complete = vString(tag+".fn", 1)
	c.Func.Name = c.Func.Complete
	c.RemoteSrcPath = vString(tag+".path", 1)
	c.Line = vInt(tag + ".line")
	return c
}

// vhPre builds a scanner state for st with ng goroutines; the current (last)
// goroutine has nc stack calls and ncb creator calls; goroutineIndex = gi.
// Every scalar is symbolic.
func vhPre(st, plen, ng, nc, ncb, gi int) *scanningState {
	s := &scanningState{Snapshot: &Snapshot{}, state: state(st), goroutineIndex: gi}
	if plen > 0 {
		s.prefix = vBytes("prefix", plen)
		for _, b := range s.prefix {
			vAssume(vOr(b == ' ', b == '\t'))
		}
	}
	for i := 0; i < ng; i++ {
		tag := "G" + string(rune('0'+i))
		g := &Goroutine{ID: vInt(tag + ".id"), First: i == 0}
		vAssume(g.ID >= 0)
		g.State = vString(tag+".state", 1)
		nci, ncbi := 1, 0
		if i == ng-1 {
			nci, ncbi = nc, ncb
		}
		if i == gi && i != ng-1 {
			ncbi = ncb
		}
		for j := 0; j < nci; j++ {
			g.Stack.Calls = append(g.Stack.Calls, vhCallSym(tag+".c"+string(rune('0'+j))))
		}
		for j := 0; j < ncbi; j++ {
			g.CreatedBy.Calls = append(g.CreatedBy.Calls, vhCallSym(tag+".cb"+string(rune('0'+j))))
		}
		s.Goroutines = append(s.Goroutines, g)
	}
	return s
}

// vhInv is the representation invariant (appendix A). All shapes are concrete,
// so this is an ordinary Go predicate.
func vhInv(s *scanningState) bool {
	G := s.Goroutines
	var cur *Goroutine
	if len(G) > 0 {
		cur = G[len(G)-1]
	}
	for i, g := range G {
		if g == nil || g.First != (i == 0) {
			return false
		}
	}
	switch s.state {
	case looking:
		// nothing recorded yet: every edge into looking starts from an empty snapshot
		return len(s.prefix) == 0 && G == nil
	case gotRaceHeader1, gotRaceHeader2:
		return G == nil
	case betweenRoutine, gotRoutineHeader, gotFileFunc, gotFileCreated, gotUnavail,
		gotRaceOperationHeader, gotRaceOperationFile, betweenRaceOperations, betweenRaceGoroutines:
		return cur != nil
	case gotFunc, gotRaceOperationFunc:
		return cur != nil && len(cur.Stack.Calls) >= 1
	case gotCreated:
		return cur != nil && len(cur.CreatedBy.Calls) >= 1
	case gotRaceGoroutineHeader, gotRaceGoroutineFile:
		return cur != nil && 0 <= s.goroutineIndex && s.goroutineIndex < len(G)
	case gotRaceGoroutineFunc:
		return cur != nil && 0 <= s.goroutineIndex && s.goroutineIndex < len(G) && len(G[s.goroutineIndex].CreatedBy.Calls) >= 1
	}
	return true
}

// vhLine returns n symbolic bytes shaped like what reader.readLine returns:
// non-empty, and a '\n' can only be the last byte.
func vhLine(n int) []byte {
	line := vBytes("line", n)
	for i := 0; i+1 < n; i++ {
		vAssume(line[i] != '\n')
	}
	return line
}
