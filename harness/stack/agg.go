//go:build verif

package stack

// Harnesses for Aggregate: C04 (partition), C05 (similarity classes), C12
// (merged signature), C06 (determinism), C14 (immutability), C13 (sorted
// output). Snapshots are constructed directly; which attributes are symbolic
// is selected by the "family" parameter so that every family stays small:
//
//	fam 0: state, lock flag, sleep            (frames/args identical)
//	fam 1: argument values / pointer-ness     (1 frame: scalar, 1-field aggregate, scalar)
//	fam 2: frame function, file, line         (no args)
//	fam 3: creator: none, one frame or a chain of two; function/line of each (one constant frame)
//	fam 4: location class / main flag         (ordering; no args)
//	fam 5: args: too-large marker ("_", value 0 as parsed), inaccurate marker ("?"), small values, elision
//	fam 6: args: named pointers (name is a function of the value, as nameArguments leaves them)
//	fam 7: args: source-processed rendering (Args.Processed is a function of the call site and the values, as augmentation leaves it)
//
// Argument records satisfy the validity predicate of parsed snapshots:
// IsPtr <=> floor < Value < ceiling; "_" arguments have Value 0 and no name;
// only pointers are named and equal names mean equal values.
const (
	famState = iota
	famArgs
	famFrame
	famCreator
	famLoc
	famArgFlags
	famNames
	famProcessed
	famCount
)

func vhArg(tag string, fam int) Arg {
	a := Arg{}
	switch fam {
	case famArgs:
		a.Value = vU64(tag + ".v")
		a.IsPtr = vAnd(a.Value > pointerFloor, a.Value < pointerCeiling)
	case famArgFlags:
		// as the parser produces them: "_" carries no value
		a.IsOffsetTooLarge = vBool(tag + ".toolarge")
		a.Value = uint64(vIte(a.IsOffsetTooLarge, 0, int(vByte(tag+".v"))))
		// "?" marks a value the runtime could not read reliably; it goes with a value
		a.IsInaccurate = vAnd(vBool(tag+".inaccurate"), vNot(a.IsOffsetTooLarge))
	case famNames:
		// as nameArguments leaves them: pointers carry a pseudo-name that is a
		// function of the value
		if vBool(tag + ".p1") {
			a.Value, a.Name = 0xc000010000, "#1"
		} else {
			a.Value, a.Name = 0xc000020000, "#2"
		}
		a.IsPtr = true
	default:
		a.Value = 7
	}
	return a
}

func vhAggCall(tag string, fam int) Call {
	c := Call{}
	c.Func.Complete = "f"
	c.Func.Name = "f"
	c.RemoteSrcPath = "/a.go"
	c.SrcName = "a.go"
	c.DirSrc = "d/a.go"
	c.Line = 10
	switch fam {
	case famArgs, famArgFlags, famNames:
		c.Args.Values = []Arg{vhArg(tag+".a0", fam), {IsAggregate: true, Fields: Args{Values: []Arg{vhArg(tag+".a1", fam)}}}}
		if fam == famArgs {
			// an argument after the aggregate
			c.Args.Values = append(c.Args.Values, vhArg(tag+".a2", fam))
		}
		if fam == famArgFlags {
			c.Args.Elided = vBool(tag + ".elided")
			c.Args.Values[1].Fields.Elided = vBool(tag + ".elidedfields")
		}
	case famProcessed:
		if vBool(tag + ".p3") {
			c.Args.Values = []Arg{{Value: 3}}
			c.Args.Processed = []string{"3"}
		} else {
			c.Args.Values = []Arg{{Value: 4}}
			c.Args.Processed = []string{"4"}
		}
	case famFrame:
		c.Func.Complete = vString(tag+".fn", 1)
		c.RemoteSrcPath = vString(tag+".path", 1)
		c.DirSrc = c.RemoteSrcPath
		c.Line = vInt(tag + ".line")
	case famLoc:
		loc := vInt(tag + ".loc")
		vAssume(0 <= loc)
		vAssume(loc < int(lastLocation))
		c.Location = Location(loc)
		c.Func.IsPkgMain = vBool(tag + ".main")
		c.Func.Complete = vString(tag+".fn", 1)
	}
	return c
}

// vhPerm returns the perm-th permutation of 1..k (factorial number system).
func vhPerm(k, perm int) []int {
	pool := make([]int, k)
	for i := range pool {
		pool[i] = i + 1
	}
	out := make([]int, 0, k)
	for n := k; n > 0; n-- {
		i := perm % n
		perm /= n
		out = append(out, pool[i])
		pool = append(pool[:i], pool[i+1:]...)
	}
	return out
}

// vhSnapshot builds k goroutines; goroutine 0 is the first. Ids are the
// perm-th permutation of 10,20,..: only their relative order matters to the
// code (sorting, tie-breaks), and every attribute of every goroutine is
// symbolic, so all arrival orders of attribute combinations are covered by
// symmetry. nf is the number of frames of every goroutine except that
// goroutine k-1 has nfLast frames.
func vhSnapshot(k, fam, nf, nfLast, perm int) *Snapshot {
	s := &Snapshot{}
	ids := vhPerm(k, perm)
	for i := 0; i < k; i++ {
		tag := "g" + string(rune('0'+i))
		g := &Goroutine{ID: ids[i] * 10, First: i == 0}
		g.State = "s"
		n := nf
		if i == k-1 {
			n = nfLast
		}
		for f := 0; f < n; f++ {
			g.Stack.Calls = append(g.Stack.Calls, vhAggCall(tag+".c"+string(rune('0'+f)), fam))
		}
		switch fam {
		case famState:
			g.State = vString(tag+".state", 1)
			g.Locked = vBool(tag + ".locked")
			g.SleepMin = vInt(tag + ".sleep")
			vAssume(g.SleepMin >= 0)
			g.SleepMax = g.SleepMin
			g.Stack.Elided = vBool(tag + ".elidedframes")
		case famCreator:
			if vBool(tag + ".hascreator") {
				cb := Call{}
				cb.Func.Complete = vString(tag+".cb.fn", 1)
				cb.RemoteSrcPath = "/c.go"
				cb.Line = vInt(tag + ".cb.line")
				g.CreatedBy.Calls = []Call{cb}
				if vBool(tag + ".chain") {
					// a creator chain (race reports: "created at:" sections)
					cb2 := Call{}
					cb2.Func.Complete = vString(tag+".cb2.fn", 1)
					cb2.RemoteSrcPath = "/c.go"
					cb2.Line = vInt(tag + ".cb2.line")
					g.CreatedBy.Calls = append(g.CreatedBy.Calls, cb2)
				}
			}
		case famLoc:
			g.Locked = vBool(tag + ".locked")
		}
		s.Goroutines = append(s.Goroutines, g)
	}
	return s
}

// ---------------------------------------------------------------- oracle
// Canonical-key reference for similarity (independent of the code's
// similar/equal): two goroutines are similar at a level iff their keys agree.

func vhRefArg(a, b *Arg, level Similarity) bool {
	if a.IsAggregate != b.IsAggregate {
		return false
	}
	if a.IsAggregate {
		return vhRefArgs(&a.Fields, &b.Fields, level)
	}
	switch level {
	case ExactFlags, ExactLines:
		return vAnd(a.Name == b.Name, vAnd(a.IsOffsetTooLarge == b.IsOffsetTooLarge, vAnd(a.IsPtr == b.IsPtr, a.Value == b.Value)))
	case AnyPointer:
		// values of pointers are blanked in the key
		return vAnd(a.IsOffsetTooLarge == b.IsOffsetTooLarge, vAnd(a.IsPtr == b.IsPtr, vOr(a.IsPtr, a.Value == b.Value)))
	}
	return true
}

func vhRefArgs(a, b *Args, level Similarity) bool {
	if len(a.Values) != len(b.Values) {
		return false
	}
	r := a.Elided == b.Elided
	for i := range a.Values {
		r = vAnd(r, vhRefArg(&a.Values[i], &b.Values[i], level))
	}
	return r
}

func vhRefStack(a, b *Stack, level Similarity) bool {
	if len(a.Calls) != len(b.Calls) {
		return false
	}
	r := a.Elided == b.Elided
	for i := range a.Calls {
		x, y := &a.Calls[i], &b.Calls[i]
		r = vAnd(r, vAnd(x.Line == y.Line, vAnd(x.Func.Complete == y.Func.Complete, x.RemoteSrcPath == y.RemoteSrcPath)))
		r = vAnd(r, vhRefArgs(&x.Args, &y.Args, level))
	}
	return r
}

func vhRefSimilar(a, b *Signature, level Similarity) bool {
	r := a.State == b.State
	r = vAnd(r, vhRefStack(&a.CreatedBy, &b.CreatedBy, level))
	if level == ExactFlags {
		r = vAnd(r, a.Locked == b.Locked)
	}
	return vAnd(r, vhRefStack(&a.Stack, &b.Stack, level))
}

// vhBucketOf returns the index of the bucket holding id (as a symbolic int),
// and how many times id occurs over all buckets.
func vhBucketOf(a *Aggregated, id int) (int, int) {
	idx, cnt := -1, 0
	for bi, b := range a.Buckets {
		for _, x := range b.IDs {
			hit := x == id
			idx = vIte(hit, bi, idx)
			cnt = vIte(hit, cnt+1, cnt)
		}
	}
	return idx, cnt
}

// VH_Agg_Partition: C04 + C05 + C14 on one aggregation.
//
//verif:prop C04
//verif:param k quick=1..3 thorough=1..4
//verif:param fam 0..6
//verif:param level 0..3
//verif:param nf 1
//verif:param nfLast quick=1 thorough=0..2
//verif:param perm quick=0,5 thorough=0,5,7,23
//verif:summarize (*Signature).similar (*Signature).equal (*Signature).less (*Stack).less
//verif:replay-iters 200
func VH_Agg_Partition(k, fam, level, nf, nfLast, perm int) {
	s := vhSnapshot(k, fam, nf, nfLast, perm)
	a := s.Aggregate(Similarity(level))
	vReach("aggregated")
	vAssert(a.Snapshot == s, "aggregation refers back to its snapshot")
	total := 0
	for _, b := range a.Buckets {
		vAssert(len(b.IDs) > 0, "bucket id list non-empty")
		for i := 1; i < len(b.IDs); i++ {
			vAssert(b.IDs[i-1] < b.IDs[i], "bucket ids strictly ascending")
		}
		total += len(b.IDs)
	}
	vAssert(total == k, "bucket sizes add up to the number of goroutines")
	firstBucket, _ := vhBucketOf(a, s.Goroutines[0].ID)
	for i, g := range s.Goroutines {
		_, cnt := vhBucketOf(a, g.ID)
		vAssert(cnt == 1, "every goroutine is in exactly one bucket")
		_ = i
	}
	for bi, b := range a.Buckets {
		vAssert(b.First == (bi == firstBucket), "exactly the bucket of the first goroutine is flagged first")
	}
}

// VH_Agg_Classes: C05 — co-membership iff similar by the canonical-key oracle.
//
//verif:prop C05
//verif:param k quick=2..3 thorough=2..4
//verif:param fam 0..6
//verif:param level 0..3
//verif:param nf 1
//verif:param nfLast quick=1 thorough=0..2
//verif:param perm quick=0,5 thorough=0,5,7,23
//verif:summarize (*Signature).similar (*Signature).equal (*Signature).less (*Stack).less
//verif:replay-iters 200
func VH_Agg_Classes(k, fam, level, nf, nfLast, perm int) {
	s := vhSnapshot(k, fam, nf, nfLast, perm)
	a := s.Aggregate(Similarity(level))
	vReach("aggregated")
	for i := 0; i < k; i++ {
		bi, _ := vhBucketOf(a, s.Goroutines[i].ID)
		for j := i + 1; j < k; j++ {
			bj, _ := vhBucketOf(a, s.Goroutines[j].ID)
			ref := vhRefSimilar(&s.Goroutines[i].Signature, &s.Goroutines[j].Signature, Similarity(level))
			vAssert(vImplies(ref, bi == bj), "similar goroutines share a bucket")
			vAssert(vImplies(bi == bj, ref), "goroutines sharing a bucket are similar")
			if level < int(AnyValue) {
				coarser := vhRefSimilar(&s.Goroutines[i].Signature, &s.Goroutines[j].Signature, Similarity(level+1))
				vAssert(vImplies(ref, coarser), "each level refines the next coarser one")
			}
		}
	}
}

// ---------------------------------------------------------------- C12

func vhGenArg(m *Arg, mem *Arg, allEq bool) bool {
	// m: merged, mem: a member's argument at the same position; allEq: all
	// members agree at this position.
	if m.IsAggregate != mem.IsAggregate {
		return false
	}
	if m.IsAggregate {
		return true // fields handled by the caller
	}
	same := vAnd(m.Value == mem.Value, vAnd(m.IsPtr == mem.IsPtr, vAnd(m.IsOffsetTooLarge == mem.IsOffsetTooLarge, m.Name == mem.Name)))
	return vAnd(vImplies(allEq, same), vImplies(vNot(allEq), m.Name == "*"))
}

func vhArgEq(a, b *Arg) bool {
	return vAnd(a.Value == b.Value, vAnd(a.IsPtr == b.IsPtr, vAnd(a.IsOffsetTooLarge == b.IsOffsetTooLarge, a.Name == b.Name)))
}

// VH_Agg_Generalises: C12 — the bucket signature generalises its members.
//
//verif:prop C12
//verif:param k quick=2..3 thorough=2..4
//verif:param fam 0,1,3,5,6,7
//verif:param level 0..3
//verif:param perm quick=0,5 thorough=0,5,7,23
//verif:summarize (*Signature).similar (*Signature).equal (*Signature).less (*Stack).less
//verif:replay-iters 200
func VH_Agg_Generalises(k, fam, level, perm int) {
	s := vhSnapshot(k, fam, 1, 1, perm)
	a := s.Aggregate(Similarity(level))
	vReach("aggregated")
	for bi, b := range a.Buckets {
		// membership flags
		in := make([]bool, k)
		for i, g := range s.Goroutines {
			x, _ := vhBucketOf(a, g.ID)
			in[i] = x == bi
		}
		lockedAny := false
		minOK, maxOK := true, true
		minHit, maxHit := false, false
		for i, g := range s.Goroutines {
			vAssert(vImplies(in[i], b.State == g.State), "bucket state is every member's state")
			vAssert(vImplies(in[i], len(b.CreatedBy.Calls) == len(g.CreatedBy.Calls)), "bucket creator shape is every member's")
			if len(b.CreatedBy.Calls) == len(g.CreatedBy.Calls) {
				for ci := range b.CreatedBy.Calls {
					vAssert(vImplies(in[i], vAnd(b.CreatedBy.Calls[ci].Func.Complete == g.CreatedBy.Calls[ci].Func.Complete, b.CreatedBy.Calls[ci].Line == g.CreatedBy.Calls[ci].Line)), "bucket creator is every member's creator")
				}
			}
			lockedAny = vOr(lockedAny, vAnd(in[i], g.Locked))
			minOK = vAnd(minOK, vImplies(in[i], b.SleepMin <= g.SleepMin))
			maxOK = vAnd(maxOK, vImplies(in[i], b.SleepMax >= g.SleepMax))
			minHit = vOr(minHit, vAnd(in[i], b.SleepMin == g.SleepMin))
			maxHit = vOr(maxHit, vAnd(in[i], b.SleepMax == g.SleepMax))
			vAssert(vImplies(in[i], len(b.Stack.Calls) == len(g.Stack.Calls)), "bucket frame count is every member's")
		}
		vAssert(b.Locked == lockedAny, "bucket locked iff some member is")
		vAssert(vAnd(minOK, minHit), "SleepMin is the minimum over members")
		vAssert(vAnd(maxOK, maxHit), "SleepMax is the maximum over members")
		// frames and arguments
		for f := range b.Stack.Calls {
			bc := &b.Stack.Calls[f]
			for i, g := range s.Goroutines {
				if f >= len(g.Stack.Calls) {
					continue
				}
				gc := &g.Stack.Calls[f]
				vAssert(vImplies(in[i], vAnd(bc.Func.Complete == gc.Func.Complete, vAnd(bc.RemoteSrcPath == gc.RemoteSrcPath, bc.Line == gc.Line))), "bucket frame is every member's frame")
				vAssert(vImplies(in[i], len(bc.Args.Values) == len(gc.Args.Values)), "bucket argument count is every member's")
				vAssert(vImplies(in[i], bc.Args.Elided == gc.Args.Elided), "bucket argument elision is every member's")
				if len(bc.Args.Processed) != 0 {
					// rendering prefers Processed over Values
					same := len(bc.Args.Processed) == len(gc.Args.Processed)
					if same {
						for pi := range bc.Args.Processed {
							same = vAnd(same, bc.Args.Processed[pi] == gc.Args.Processed[pi])
						}
					}
					vAssert(vImplies(in[i], same), "a source-processed rendering shown for the bucket is every member's")
				}
			}
			for ai := range bc.Args.Values {
				vhCheckArg(s, in, f, []int{ai}, &bc.Args.Values[ai])
			}
		}
	}
}

func vhMemberArg(g *Goroutine, f int, path []int) *Arg {
	if f >= len(g.Stack.Calls) {
		return nil
	}
	args := &g.Stack.Calls[f].Args
	var a *Arg
	for _, p := range path {
		if p >= len(args.Values) {
			return nil
		}
		a = &args.Values[p]
		args = &a.Fields
	}
	return a
}

// vhCheckArg checks one merged scalar position (recursing into aggregates).
func vhCheckArg(s *Snapshot, in []bool, f int, path []int, m *Arg) {
	if m.IsAggregate {
		for fi := range m.Fields.Values {
			vhCheckArg(s, in, f, append(append([]int{}, path...), fi), &m.Fields.Values[fi])
		}
		return
	}
	// do all members agree at this position?
	allEq := true
	for i := range s.Goroutines {
		for j := i + 1; j < len(s.Goroutines); j++ {
			x, y := vhMemberArg(s.Goroutines[i], f, path), vhMemberArg(s.Goroutines[j], f, path)
			if x == nil || y == nil {
				continue
			}
			allEq = vAnd(allEq, vImplies(vAnd(in[i], in[j]), vhArgEq(x, y)))
		}
	}
	for i := range s.Goroutines {
		x := vhMemberArg(s.Goroutines[i], f, path)
		if x == nil {
			continue
		}
		vAssert(vImplies(vAnd(in[i], allEq), vhArgEq(m, x)), "an argument equal in all members is shown unchanged")
	}
	vAssert(vImplies(vNot(allEq), m.Name == "*"), "an argument that differs between members is shown as *")
}

// ---------------------------------------------------------------- C06 / C14

func vhSigEq(a, b *Signature) bool {
	r := vAnd(a.State == b.State, vAnd(a.Locked == b.Locked, vAnd(a.SleepMin == b.SleepMin, a.SleepMax == b.SleepMax)))
	r = vAnd(r, vhStackEq(&a.Stack, &b.Stack))
	return vAnd(r, vhStackEq(&a.CreatedBy, &b.CreatedBy))
}

func vhStackEq(a, b *Stack) bool {
	if len(a.Calls) != len(b.Calls) {
		return false
	}
	r := a.Elided == b.Elided
	for i := range a.Calls {
		x, y := &a.Calls[i], &b.Calls[i]
		r = vAnd(r, vAnd(x.Line == y.Line, vAnd(x.Func.Complete == y.Func.Complete, vAnd(x.RemoteSrcPath == y.RemoteSrcPath, vAnd(x.Location == y.Location, x.Func.IsPkgMain == y.Func.IsPkgMain)))))
		r = vAnd(r, vhArgsEq(&x.Args, &y.Args))
	}
	return r
}

func vhArgsEq(a, b *Args) bool {
	if len(a.Values) != len(b.Values) {
		return false
	}
	r := a.Elided == b.Elided
	for i := range a.Values {
		x, y := &a.Values[i], &b.Values[i]
		if x.IsAggregate != y.IsAggregate {
			return false
		}
		if x.IsAggregate {
			r = vAnd(r, vhArgsEq(&x.Fields, &y.Fields))
		} else {
			r = vAnd(r, vhArgEq(x, y))
		}
	}
	return r
}

// VH_Agg_Deterministic: C06 — two aggregations of the same snapshot (hence two
// independent map iteration orders) give the same bucket sequence.
//
//verif:prop C06
//verif:param k quick=2..3 thorough=2..3
//verif:param fam 0..6
//verif:param level 0..3
//verif:param perm quick=0,5 thorough=0,5,7,23
//verif:summarize (*Signature).similar (*Signature).equal (*Signature).less (*Stack).less
//verif:replay-iters 300
func VH_Agg_Deterministic(k, fam, level, perm int) {
	s := vhSnapshot(k, fam, 1, 1, perm)
	a := s.Aggregate(Similarity(level))
	b := s.Aggregate(Similarity(level))
	vReach("aggregated twice")
	vAssert(len(a.Buckets) == len(b.Buckets), "same number of buckets on every run")
	if len(a.Buckets) != len(b.Buckets) {
		return
	}
	for i := range a.Buckets {
		x, y := a.Buckets[i], b.Buckets[i]
		vAssert(len(x.IDs) == len(y.IDs), "same bucket sizes in the same order on every run")
		if len(x.IDs) == len(y.IDs) {
			same := true
			for j := range x.IDs {
				same = vAnd(same, x.IDs[j] == y.IDs[j])
			}
			vAssert(same, "same bucket ids in the same order on every run")
		}
		vAssert(x.First == y.First, "same first flag on every run")
		vAssert(vhSigEq(&x.Signature, &y.Signature), "same merged signature on every run")
	}
}

// VH_Agg_TotalOrder: determinism without running twice: for every map
// iteration order the emitted sequence must follow one total order (relevance,
// then size, then lowest id), so no two orders can give different sequences.
// Four goroutines are needed for two non-first buckets of different sizes.
//
//verif:prop C06
//verif:param k quick=4 thorough=3..4
//verif:param fam quick=0 thorough=0,4,5
//verif:param level quick=1 thorough=1,3
//verif:param perm quick=7,23 thorough=0,5,7,23
//verif:summarize (*Signature).similar (*Signature).equal (*Signature).less (*Stack).less
//verif:replay-iters 300
func VH_Agg_TotalOrder(k, fam, level, perm int) {
	s := vhSnapshot(k, fam, 1, 1, perm)
	a := s.Aggregate(Similarity(level))
	vReach("aggregated")
	for i := 0; i+1 < len(a.Buckets); i++ {
		x, y := a.Buckets[i], a.Buckets[i+1]
		xy, yx := x.Signature.less(&y.Signature), y.Signature.less(&x.Signature)
		bySize := len(x.IDs) < len(y.IDs) || (len(x.IDs) == len(y.IDs) && x.IDs[0] < y.IDs[0])
		ok := vOr(x.First, vAnd(vNot(y.First), vOr(xy, vAnd(vNot(yx), bySize))))
		vAssert(ok, "adjacent buckets follow the total order (first, relevance, size, lowest id)")
	}
}

// VH_Agg_Immutable: C14 — Aggregate writes nothing that existed before the call
// (engine write barrier), and natively the snapshot is deep-equal afterwards.
//
//verif:prop C14
//verif:param k quick=1..3 thorough=1..4
//verif:param fam 0..6
//verif:param level 0..3
//verif:param level2 -1
//verif:param perm quick=0,5 thorough=0,5,7,23
//verif:summarize (*Signature).similar (*Signature).equal (*Signature).less (*Stack).less
//verif:replay-iters 50
func VH_Agg_Immutable(k, fam, level, level2, perm int) {
	s := vhSnapshot(k, fam, 1, 1, perm)
	// value copy taken before (for the native before/after comparison)
	before := make([]Goroutine, k)
	for i, g := range s.Goroutines {
		before[i] = *g
		before[i].Stack.Calls = append([]Call{}, g.Stack.Calls...)
		for c := range before[i].Stack.Calls {
			before[i].Stack.Calls[c].Args.Values = vhCloneArgs(g.Stack.Calls[c].Args.Values)
		}
		before[i].CreatedBy.Calls = append([]Call{}, g.CreatedBy.Calls...)
	}
	vBarrierOn()
	a1 := s.Aggregate(Similarity(level))
	if level2 >= 0 {
		// a second aggregation of the same snapshot (history of length 2)
		a2 := s.Aggregate(Similarity(level2))
		_ = a2
	}
	vBarrierOff()
	_ = a1
	vReach("aggregated under write barrier")
	for i, g := range s.Goroutines {
		vAssert(vAnd(g.ID == before[i].ID, g.First == before[i].First), "goroutine id/first unchanged by aggregation")
		vAssert(vhSigEq(&g.Signature, &before[i].Signature), "goroutine signature unchanged by aggregation")
	}
}

// VH_Agg_ImmutableTwice: a history of two aggregations at arbitrary levels
// under the write barrier (smaller snapshots).
//
//verif:prop C14
//verif:param k quick=2 thorough=2..3
//verif:param fam 0..6
//verif:param level 0..3
//verif:param level2 0..3
//verif:param perm quick=0 thorough=0..5
//verif:summarize (*Signature).similar (*Signature).equal (*Signature).less (*Stack).less
//verif:replay-iters 50
func VH_Agg_ImmutableTwice(k, fam, level, level2, perm int) {
	VH_Agg_Immutable(k, fam, level, level2, perm)
}

func vhCloneArgs(v []Arg) []Arg {
	out := append([]Arg{}, v...)
	for i := range out {
		if out[i].IsAggregate {
			out[i].Fields.Values = vhCloneArgs(out[i].Fields.Values)
		}
	}
	return out
}

// VH_Agg_Partition4: the partition on four goroutines (the fewest for the
// arrival order A1, B, A2, A3 with pairwise unequal A's) for the sleep/lock/state
// family at two levels.
//
//verif:prop C04
//verif:param k 4
//verif:param fam 0
//verif:param level quick=1 thorough=1,3
//verif:param nf 1
//verif:param nfLast 1
//verif:param perm quick=0 thorough=0,23
//verif:summarize (*Signature).similar (*Signature).equal (*Signature).less (*Stack).less
//verif:replay-iters 200
func VH_Agg_Partition4(k, fam, level, nf, nfLast, perm int) {
	VH_Agg_Partition(k, fam, level, nf, nfLast, perm)
}

// VH_Agg_FirstAnywhere: the First flag follows the first goroutine wherever it
// stands in a (hand-built) snapshot, also when it joins a bucket opened by an
// earlier goroutine.
//
//verif:prop C04
//verif:param fi 0..2
//verif:param fam 0,1
//verif:param level 0..3
//verif:summarize (*Signature).similar (*Signature).equal (*Signature).less (*Stack).less
//verif:replay-iters 50
func VH_Agg_FirstAnywhere(fi, fam, level int) {
	s := vhSnapshot(3, fam, 1, 1, 0)
	for i, g := range s.Goroutines {
		g.First = i == fi
	}
	a := s.Aggregate(Similarity(level))
	vReach("aggregated with the first goroutine at any index")
	nFirst := 0
	for _, b := range a.Buckets {
		has := false
		for _, id := range b.IDs {
			if id == s.Goroutines[fi].ID {
				has = true
			}
		}
		vAssert(b.First == has, "the bucket flagged First is the one holding the first goroutine")
		if b.First {
			nFirst++
		}
	}
	vAssert(nFirst == 1, "exactly one bucket is flagged First")
}
