//go:build verif

package stack

// C13 — bucket ordering contract. Signature.less / Stack.less are executed from
// SSA on symbolic signatures.

func vhCall(tag string) Call {
	loc := vInt(tag + ".loc")
	vAssume(0 <= loc)
	vAssume(loc < int(lastLocation))
	c := Call{}
	c.Location = Location(loc)
	c.Func.IsPkgMain = vBool(tag + ".main")
	c.Func.Complete = vString(tag+".fn", 1)
	c.DirSrc = vString(tag+".src", 1)
	c.Line = vInt(tag + ".line")
	return c
}

func vhSig(tag string, n int) *Signature {
	s := &Signature{}
	for i := 0; i < n; i++ {
		s.Stack.Calls = append(s.Stack.Calls, vhCall(tag+string(rune('0'+i))))
	}
	s.Locked = vBool(tag + ".locked")
	s.State = vString(tag+".state", 1)
	return s
}

// VH_C13_SigLessSWO: Signature.less is a strict weak order on every triple of
// signatures with the given stack lengths.
//
//verif:prop C13
//verif:param na quick=0..2 thorough=0..3
//verif:param nb quick=0..2 thorough=0..2
//verif:param nc quick=0..2 thorough=0..2
//verif:summarize (*Signature).less (*Stack).less
func VH_C13_SigLessSWO(na, nb, nc int) {
	a, b, c := vhSig("a", na), vhSig("b", nb), vhSig("c", nc)
	aa := a.less(a)
	ab, ba := a.less(b), b.less(a)
	bc, cb := b.less(c), c.less(b)
	ac, ca := a.less(c), c.less(a)
	vReach("three signatures compared")
	vAssert(vNot(aa), "irreflexive")
	vAssert(vNot(vAnd(ab, ba)), "asymmetric")
	vAssert(vImplies(vAnd(ab, bc), ac), "transitive")
	incAB := vAnd(vNot(ab), vNot(ba))
	incBC := vAnd(vNot(bc), vNot(cb))
	incAC := vAnd(vNot(ac), vNot(ca))
	vAssert(vImplies(vAnd(incAB, incBC), incAC), "incomparability is transitive")
}

func vhAllStdlib(s *Signature) bool {
	r := true
	for i := range s.Stack.Calls {
		r = vAnd(r, vAnd(s.Stack.Calls[i].Location == Stdlib, vNot(s.Stack.Calls[i].Func.IsPkgMain)))
	}
	return r
}

func vhHasUserCode(s *Signature) bool {
	r := false
	for i := range s.Stack.Calls {
		l := s.Stack.Calls[i].Location
		r = vOr(r, vOr(s.Stack.Calls[i].Func.IsPkgMain, vOr(l == GoMod, vOr(l == GOPATH, l == GoPkg))))
	}
	return r
}

// VH_C13_StdlibLast: a signature whose frames are all standard library never
// sorts before one holding main, module, GOPATH or module-cache code.
//
//verif:prop C13
//verif:param na quick=1..3 thorough=1..4
//verif:param nb quick=1..3 thorough=1..4
//verif:summarize (*Signature).less (*Stack).less
func VH_C13_StdlibLast(na, nb int) {
	a, b := vhSig("a", na), vhSig("b", nb)
	vAssume(vhAllStdlib(a))
	vAssume(vhHasUserCode(b))
	vReach("stdlib-only vs user code")
	vAssert(vNot(a.less(b)), "stdlib-only signature sorts before user code")
	vAssert(b.less(a), "user code does not sort before stdlib-only signature")
}

// VH_C13_StdlibLastDeep: the same contract for deep stacks: n frames of
// standard library code (n around 16 and 32, where a packed or narrow counter
// would overflow) against a two-frame signature holding user code.
//
//verif:prop C13
//verif:param n 15..17,31..33
//verif:param nb 1..2
//verif:summarize (*Signature).less (*Stack).less
func VH_C13_StdlibLastDeep(n, nb int) {
	a := &Signature{}
	for i := 0; i < n; i++ {
		c := Call{Location: Stdlib}
		c.Func.Complete = "f"
		c.DirSrc = "d"
		c.Line = vInt("a.line" + string(rune('A'+i)))
		a.Stack.Calls = append(a.Stack.Calls, c)
	}
	a.State = "s"
	b := vhSig("b", nb)
	vAssume(vhHasUserCode(b))
	vReach("deep stdlib-only vs user code")
	vAssert(vNot(a.less(b)), "a deep stdlib-only signature sorts before user code")
	vAssert(b.less(a), "user code does not sort before a deep stdlib-only signature")
}

func vhMainCount(s *Signature) int {
	n := 0
	for i := range s.Stack.Calls {
		n = vIte(s.Stack.Calls[i].Func.IsPkgMain, n+1, n)
	}
	return n
}

// VH_C13_AggregateOrder: the bucket order produced by Aggregate (real sort
// closure, all map iteration orders) honours the relevance contract.
//
//verif:prop C13
//verif:param k quick=2..3 thorough=2..3
//verif:param level 0,3
//verif:param nf quick=1..2 thorough=1..2
//verif:param perm quick=0,5 thorough=0,5,7,23
//verif:summarize (*Signature).similar (*Signature).equal (*Signature).less (*Stack).less
//verif:replay-iters 200
func VH_C13_AggregateOrder(k, level, nf, perm int) {
	s := vhSnapshot(k, famLoc, nf, nf, perm)
	// validity of parsed snapshots: package-main membership is a function of
	// the function name and the location class a function of the file, so
	// frames with the same function (the file is the same everywhere here)
	// agree on both
	for i, g := range s.Goroutines {
		for _, h := range s.Goroutines[:i] {
			for f := range g.Stack.Calls {
				x, y := &g.Stack.Calls[f], &h.Stack.Calls[f]
				vAssume(vImplies(x.Func.Complete == y.Func.Complete, vAnd(x.Func.IsPkgMain == y.Func.IsPkgMain, x.Location == y.Location)))
			}
		}
	}
	a := s.Aggregate(Similarity(level))
	vReach("aggregated")
	// what a bucket contains is what its members contain: the contract is
	// checked on a member's own signature, not on the merged one
	member := func(b *Bucket) *Signature {
		for _, g := range s.Goroutines {
			if g.ID == b.IDs[0] {
				return &g.Signature
			}
		}
		return &b.Signature
	}
	for i, b := range a.Buckets {
		vAssert(vImplies(b.First, i == 0), "the bucket of the first goroutine comes first")
		bs := member(b)
		for j := i + 1; j < len(a.Buckets); j++ {
			c := a.Buckets[j]
			cs := member(c)
			// b precedes c
			if i > 0 || !b.First {
				vAssert(vNot(vAnd(vNot(b.First), vAnd(vhAllStdlib(bs), vhHasUserCode(cs)))), "a stdlib-only bucket precedes a bucket with user code")
				vAssert(vImplies(vNot(b.First), vhMainCount(bs) >= vhMainCount(cs)), "a bucket with fewer main frames precedes one with more")
			}
		}
	}
}

// VH_C13_AggregateOrder4: four goroutines, one frame each: the smallest
// snapshot with a first bucket, a merged bucket and a third one.
//
//verif:prop C13
//verif:param k 4
//verif:param level quick=3 thorough=0,3
//verif:param nf 1
//verif:param perm 0,23
//verif:summarize (*Signature).similar (*Signature).equal (*Signature).less (*Stack).less
//verif:replay-iters 200
func VH_C13_AggregateOrder4(k, level, nf, perm int) { VH_C13_AggregateOrder(k, level, nf, perm) }
