//go:build verif

package stack

// C01 — goroutine dump parse fidelity. Each harness builds one line from
// symbolic *fields* with a model of the runtime's traceback printer
// (runtime/traceback.go, cmd/internal/objabi.PathToPrefix), scans it with the
// real scan() from a symbolic pre-state satisfying Inv, and asserts that the
// record produced equals the fields, that the step is consumed without error,
// and that nothing else in the snapshot changed. By induction over lines this
// covers dumps with any number of goroutines, frames and lines.

// ---------------------------------------------------------------- builders

func vhDigits(tag string, k int) ([]byte, int) {
	d := vBytes(tag, k)
	v := 0
	for i, ch := range d {
		if i == 0 && k > 1 {
			vAssume(vAnd(ch >= '1', ch <= '9'))
		} else {
			vAssume(vAnd(ch >= '0', ch <= '9'))
		}
		v = v*10 + int(ch-'0')
	}
	return d, v
}

func vhHexVal(ch byte) uint64 {
	return uint64(vIte(ch <= '9', int(ch-'0'), int(ch-'a')+10))
}

// vhHex: k lower-case hex digits without a leading zero (as print(hex(x)) emits).
func vhHex(tag string, k int) ([]byte, uint64) {
	d := vBytes(tag, k)
	var v uint64
	for i, ch := range d {
		vAssume(vOr(vAnd(ch >= '0', ch <= '9'), vAnd(ch >= 'a', ch <= 'f')))
		if i == 0 && k > 1 {
			vAssume(ch != '0')
		}
		v = v<<4 | vhHexVal(ch)
	}
	return d, v
}

func vhIndent(tag string, k int) []byte {
	b := vBytes(tag, k)
	for _, ch := range b {
		vAssume(vOr(ch == ' ', ch == '\t'))
	}
	return b
}

func vhEOL(eol int) []byte {
	if eol == 1 {
		return []byte("\r\n")
	}
	return []byte("\n")
}

func vhCat(parts ...[]byte) []byte {
	var out []byte
	for _, p := range parts {
		out = append(out, p...)
	}
	return out
}

// vhTok: k symbolic bytes without blank, ']' or newline (gp=/m= annotation values).
func vhTok(tag string, k int) []byte {
	b := vBytes(tag, k)
	for _, ch := range b {
		vAssume(vAnd(ch != ' ', vAnd(ch != '\n', ch != ']')))
	}
	return b
}

// vhSnapBefore copies what a step must not touch.
type vhGor struct {
	g  *Goroutine
	id int
	fi bool
	sg Signature
}

func vhRemember(s *scanningState) []vhGor {
	var out []vhGor
	for _, g := range s.Goroutines {
		r := vhGor{g: g, id: g.ID, fi: g.First, sg: g.Signature}
		r.sg.Stack.Calls = append([]Call{}, g.Stack.Calls...)
		r.sg.CreatedBy.Calls = append([]Call{}, g.CreatedBy.Calls...)
		out = append(out, r)
	}
	return out
}

// vhUnchanged: goroutines [0,upto) are exactly as remembered (same objects,
// same contents).
func vhUnchanged(s *scanningState, before []vhGor, upto int, label string) {
	for i := 0; i < upto; i++ {
		g := s.Goroutines[i]
		vAssert(g == before[i].g, label+": same goroutine object")
		vAssert(vAnd(g.ID == before[i].id, g.First == before[i].fi), label+": id/first")
		vAssert(vhSigEq(&g.Signature, &before[i].sg), label+": signature")
	}
}

// ---------------------------------------------------------------- header

// VH_C01_Header: "goroutine N [gp= m= mp=] [state[, M minutes][, locked to thread]]:"
// from looking (indent becomes the dump's prefix) and from betweenRoutine
// (line carries the recorded prefix).
//
//verif:prop C01
//verif:param from 0,2
//verif:param ind quick=0,2 thorough=0..2
//verif:param idk quick=1,18 thorough=1,2,9,17,18
//verif:param ann 0..2
//verif:param stk quick=1,7 thorough=1,4,12
//verif:param mink quick=0,2 thorough=0,1,3
//verif:param locked 0..1
//verif:param eol 0..1
//verif:param ng quick=0,2 thorough=0..2
//verif:summarize atou
func VH_C01_Header(from, ind, idk, ann, stk, mink, locked, eol, ng int) {
	if state(from) == betweenRoutine && ng == 0 {
		return
	}
	plen := 0
	if state(from) == betweenRoutine {
		plen = ind
	}
	s := vhPre(from, plen, ng, 1, 0, 0)
	indent := s.prefix
	if state(from) == looking {
		indent = vhIndent("indent", ind)
	}
	idd, id := vhDigits("id", idk)
	stateTxt := vBytes("state", stk)
	for i, ch := range stateTxt {
		vAssume(vAnd(ch != ']', vAnd(ch != '\n', vAnd(ch != '\r', ch != ','))))
		_ = i
	}
	line := vhCat(indent, []byte("goroutine "), idd)
	switch ann {
	case 1:
		line = vhCat(line, []byte(" gp="), vhTok("gp", 3), []byte(" m="), vhTok("m", 1))
	case 2:
		line = vhCat(line, []byte(" gp="), vhTok("gp", 3), []byte(" m="), vhTok("m", 1), []byte(" mp="), vhTok("mp", 2))
	}
	line = vhCat(line, []byte(" ["), stateTxt)
	mins := 0
	if mink > 0 {
		var md []byte
		md, mins = vhDigits("mins", mink)
		line = vhCat(line, []byte(", "), md, []byte(" minutes"))
	}
	if locked == 1 {
		line = vhCat(line, []byte(", locked to thread"))
	}
	line = vhCat(line, []byte("]:"), vhEOL(eol))
	before := vhRemember(s)
	proc, err := s.scan(line)
	vReach("header scanned")
	vAssert(proc, "header line consumed")
	vAssert(err == nil, "header line gives no error")
	vAssert(s.state == gotRoutineHeader, "state after header")
	vAssert(len(s.Goroutines) == ng+1, "exactly one goroutine appended")
	if len(s.Goroutines) != ng+1 {
		return
	}
	vhUnchanged(s, before, ng, "earlier goroutines untouched by a header")
	g := s.Goroutines[ng]
	vAssert(g.ID == id, "goroutine id")
	vAssert(g.First == (ng == 0), "only the first printed goroutine is first")
	vAssert(g.State == string(stateTxt), "state text")
	vAssert(vAnd(g.SleepMin == mins, g.SleepMax == mins), "wait minutes")
	vAssert(g.Locked == (locked == 1), "thread-lock flag")
	vAssert(len(g.Stack.Calls) == 0 && len(g.CreatedBy.Calls) == 0 && g.RaceAddr == 0, "new goroutine starts empty")
	vAssert(string(s.prefix) == string(indent), "the dump's uniform indentation is kept")
}

// ---------------------------------------------------------------- function line

// vhPlain: import-path / name bytes that PathToPrefix leaves alone.
func vhPlainPath(b byte) bool {
	// not escaped: c > ' ' && c != '%' && c != '"' && c < 0x7f ; '/' and '.' are placed by the template
	return vAnd(b > ' ', vAnd(b != '%', vAnd(b != '"', vAnd(b < 0x7f, vAnd(b != '/', vAnd(b != '.', vAnd(b != '(', b != ')')))))))
}

func vhNameByte(b byte) bool {
	// identifier-ish: letters, digits, _ * [ ] - · and non-ASCII (UTF-8 identifiers)
	letter := vOr(vAnd(b >= 'a', b <= 'z'), vAnd(b >= 'A', b <= 'Z'))
	digit := vAnd(b >= '0', b <= '9')
	punct := vOr(b == '_', vOr(b == '*', vOr(b == '[', vOr(b == ']', b == '-'))))
	return vOr(letter, vOr(digit, vOr(punct, b >= 0x80)))
}

// vhSymbol builds a printed symbol and the expected (importPath, name).
// tmpl: 0 "main.N"  1 "p.N"  2 "p/q.N"  3 "p/q%2er.N" (dot after last slash)
//
//	4 "p%XXq.N" (escaped byte)  5 "N" (no package: C / panic)  6 "p/q.(*T).N"  7 "p.N.func1.2"
//	8 "p%XX/q.N" (escaped byte before the last slash)
func vhSymbol(tag string, tmpl int) (raw []byte, imp string, name string) {
	pb := func(t string, k int) []byte {
		b := vBytes(tag+"."+t, k)
		for _, ch := range b {
			vAssume(vhPlainPath(ch))
		}
		return b
	}
	nb := vBytes(tag+".name", 2)
	for _, ch := range nb {
		vAssume(vhNameByte(ch))
	}
	switch tmpl {
	case 0:
		return vhCat([]byte("main."), nb), "main", string(nb)
	case 1:
		p := pb("p", 2)
		return vhCat(p, []byte("."), nb), string(p), string(nb)
	case 2:
		p, q := pb("p", 1), pb("q", 2)
		return vhCat(p, []byte("/"), q, []byte("."), nb), string(p) + "/" + string(q), string(nb)
	case 3:
		p, q, r := pb("p", 1), pb("q", 1), pb("r", 1)
		return vhCat(p, []byte("/"), q, []byte("%2e"), r, []byte("."), nb), string(p) + "/" + string(q) + "." + string(r), string(nb)
	case 4:
		p, q := pb("p", 1), pb("q", 1)
		// an escaped byte: c <= ' ' || c == '%' || c == '"' || c >= 0x7f
		c := vByte(tag + ".esc")
		vAssume(vOr(c <= ' ', vOr(c == '%', vOr(c == '"', c >= 0x7f))))
		hex := "0123456789abcdef"
		esc := []byte{'%', hex[c>>4], hex[c&15]}
		return vhCat(p, esc, q, []byte("."), nb), string(p) + string([]byte{c}) + string(q), string(nb)
	case 5:
		return nb, "", string(nb)
	case 6:
		p, q := pb("p", 1), pb("q", 1)
		n := "(*T)." + string(nb)
		return vhCat(p, []byte("/"), q, []byte("."), []byte(n)), string(p) + "/" + string(q), n
	case 8:
		// an escaped byte in a path element before the last slash
		p, q := pb("p", 1), pb("q", 1)
		c := vByte(tag + ".esc")
		vAssume(vOr(c <= ' ', vOr(c == '%', vOr(c == '"', c >= 0x7f))))
		hex := "0123456789abcdef"
		esc := []byte{'%', hex[c>>4], hex[c&15]}
		return vhCat(p, esc, []byte("/"), q, []byte("."), nb), string(p) + string([]byte{c}) + "/" + string(q), string(nb)
	default:
		p := pb("p", 2)
		n := string(nb) + ".func1.2"
		return vhCat(p, []byte("."), []byte(n)), string(p), n
	}
}

func vhLastElem(p string) string {
	for i := len(p) - 1; i >= 0; i-- {
		if p[i] == '/' {
			return p[i+1:]
		}
	}
	return p
}

// vhArgsModel: printed argument list and the expected tree.
// shape: 0 ""  1 "0xH"  2 "0xH, 0xH?"  3 "_, ..."  4 "{0xH, 0xH}, 0xH"
//
//	5 "{{0xH}, {}}"  6 "{{{{{0xH}}}}}"  7 "0xH, {0xH, ...}"  8 "0xHHHHHHHHHHHHHHHH" (16 digits)
//	9 "{0xH, 0xH?}"  10 "{0xH, {0xH?, _}}, 0xH?"
func vhArgsModel(tag string, shape int) ([]byte, Args) {
	n := 0
	hx := func(k int) ([]byte, Arg) {
		n++
		d, v := vhHex(tag+".h"+string(rune('0'+n)), k)
		return vhCat([]byte("0x"), d), Arg{Value: v, IsPtr: vAnd(v > pointerFloor, v < pointerCeiling)}
	}
	agg := func(fields ...Arg) Arg { return Arg{IsAggregate: true, Fields: Args{Values: fields}} }
	switch shape {
	case 0:
		return nil, Args{}
	case 1:
		t, a := hx(3)
		return t, Args{Values: []Arg{a}}
	case 2:
		t1, a1 := hx(1)
		t2, a2 := hx(10)
		a2.IsInaccurate = true
		return vhCat(t1, []byte(", "), t2, []byte("?")), Args{Values: []Arg{a1, a2}}
	case 3:
		return []byte("_, ..."), Args{Values: []Arg{{IsOffsetTooLarge: true}}, Elided: true}
	case 4:
		t1, a1 := hx(2)
		t2, a2 := hx(1)
		t3, a3 := hx(6)
		return vhCat([]byte("{"), t1, []byte(", "), t2, []byte("}, "), t3), Args{Values: []Arg{agg(a1, a2), a3}}
	case 5:
		t1, a1 := hx(1)
		return vhCat([]byte("{{"), t1, []byte("}, {}}")), Args{Values: []Arg{agg(agg(a1), agg())}}
	case 6:
		t1, a1 := hx(2)
		return vhCat([]byte("{{{{{"), t1, []byte("}}}}}")), Args{Values: []Arg{agg(agg(agg(agg(agg(a1)))))}}
	case 7:
		t1, a1 := hx(1)
		t2, a2 := hx(1)
		in := agg(a2)
		in.Fields.Elided = true
		return vhCat(t1, []byte(", {"), t2, []byte(", ...}")), Args{Values: []Arg{a1, in}}
	case 8:
		t, a := hx(16)
		return t, Args{Values: []Arg{a}}
	case 9:
		// inaccurate value as the last element of an aggregate
		t1, a1 := hx(1)
		t2, a2 := hx(2)
		a2.IsInaccurate = true
		return vhCat([]byte("{"), t1, []byte(", "), t2, []byte("?}")), Args{Values: []Arg{agg(a1, a2)}}
	default:
		// inaccurate / too-large values closing a nested aggregate, then more arguments
		t1, a1 := hx(1)
		t2, a2 := hx(1)
		a2.IsInaccurate = true
		t3, a3 := hx(1)
		return vhCat([]byte("{"), t1, []byte(", {"), t2, []byte("?, _}}, "), t3, []byte("?")),
			Args{Values: []Arg{agg(a1, agg(a2, Arg{IsOffsetTooLarge: true})), func() Arg { a3.IsInaccurate = true; return a3 }()}}
	}
}

func vhArgsSame(a, b *Args) bool {
	if len(a.Values) != len(b.Values) {
		return false
	}
	r := a.Elided == b.Elided
	for i := range a.Values {
		x, y := &a.Values[i], &b.Values[i]
		if x.IsAggregate != y.IsAggregate {
			return false
		}
		if x.IsAggregate {
			r = vAnd(r, vhArgsSame(&x.Fields, &y.Fields))
		} else {
			r = vAnd(r, vAnd(x.Value == y.Value, vAnd(x.IsPtr == y.IsPtr, vAnd(x.IsInaccurate == y.IsInaccurate, vAnd(x.IsOffsetTooLarge == y.IsOffsetTooLarge, x.Name == "")))))
		}
	}
	return r
}

// VH_C01_Func: a frame's first line "symbol(args)" after a header or after a
// file line.
//
//verif:prop C01
//verif:param from 3,6
//verif:param tmpl 0..8
//verif:param ashape quick=0,2,4,7,9,10 thorough=0..10
//verif:param eol 0..1
//verif:param nc 0..1
func VH_C01_Func(from, tmpl, ashape, eol, nc int) {
	if state(from) == gotFileFunc && nc == 0 {
		return
	}
	s := vhPre(from, 0, 2, nc, 0, 0)
	raw, imp, name := vhSymbol("sym", tmpl)
	atxt, want := vhArgsModel("arg", ashape)
	line := vhCat(raw, []byte("("), atxt, []byte(")"), vhEOL(eol))
	before := vhRemember(s)
	proc, err := s.scan(line)
	vReach("function line scanned")
	vAssert(proc, "function line consumed")
	vAssert(err == nil, "function line gives no error")
	vAssert(s.state == gotFunc, "state after function line")
	vAssert(len(s.Goroutines) == 2, "no goroutine added or dropped")
	vhUnchanged(s, before, 1, "other goroutines untouched by a function line")
	cur := s.Goroutines[1]
	vAssert(len(cur.Stack.Calls) == nc+1, "exactly one frame appended")
	if len(cur.Stack.Calls) != nc+1 {
		return
	}
	for i := 0; i < nc; i++ {
		vAssert(vhStackEq(&Stack{Calls: cur.Stack.Calls[i : i+1]}, &Stack{Calls: before[1].sg.Stack.Calls[i : i+1]}), "earlier frames untouched")
	}
	c := &cur.Stack.Calls[nc]
	complete := name
	if tmpl != 5 {
		complete = imp + "." + name
	}
	vAssert(c.Func.Complete == complete, "demangled complete name")
	vAssert(c.Func.ImportPath == imp, "demangled import path")
	vAssert(c.Func.Name == name, "function name")
	vAssert(c.Func.DirName == vhLastElem(imp), "directory name")
	vAssert(c.Func.IsPkgMain == (tmpl == 0), "package main flag")
	vAssert(c.ImportPath == imp, "call import path")
	vAssert(vhArgsSame(&c.Args, &want), "argument tree")
	vAssert(cur.State == before[1].sg.State && len(cur.CreatedBy.Calls) == 0, "goroutine header fields untouched")
}

// ---------------------------------------------------------------- file line

// vhPathModel: 0 "??"  1 "<autogenerated>"  2 "/d/f.go"  3 "C:/d e/f.s"  4 "f.c" (no slash)
//
//	5 "/a/b/_test/_testmain.go"  6 "/x.go/y.go" (suffix-like directory)
func vhPathModel(tag string, shape int) (path string, srcName string, dirSrc string) {
	sb := func(t string, k int) string {
		b := vBytes(tag+"."+t, k)
		for _, ch := range b {
			vAssume(vAnd(ch != '\n', vAnd(ch != '\r', ch != '/')))
		}
		return string(b)
	}
	switch shape {
	case 0:
		return "??", "", ""
	case 1:
		return "<autogenerated>", "", ""
	case 2:
		d, f := sb("d", 2), sb("f", 2)
		return "/" + d + "/" + f + ".go", f + ".go", d + "/" + f + ".go"
	case 3:
		d, f := sb("d", 1), sb("f", 1)
		return "C:/" + d + " e/" + f + ".s", f + ".s", d + " e/" + f + ".s"
	case 4:
		f := sb("f", 2)
		return f + ".c", "", ""
	case 5:
		return "/a/b/_test/_testmain.go", "_testmain.go", "_test/_testmain.go"
	default:
		f := sb("f", 1)
		return "/x.go/" + f + ".go", f + ".go", "x.go/" + f + ".go"
	}
}

// VH_C01_File: a frame's second line in gotFunc (stack) and gotCreated (creator).
//
//verif:prop C01
//verif:param from 4,5
//verif:param sep quick=0,3 thorough=0,1,6
//verif:param pshape 0..6
//verif:param lnk quick=1,18 thorough=1,5,18
//verif:param off 0..1
//verif:param regs 0..2
//verif:param eol 0..1
//verif:summarize atou
func VH_C01_File(from, sep, pshape, lnk, off, regs, eol int) {
	s := vhPre(from, 0, 2, 2, 1, 0)
	var lead []byte
	if sep == 0 {
		lead = []byte("\t")
	} else {
		for i := 0; i < sep; i++ {
			lead = append(lead, ' ')
		}
	}
	path, srcName, dirSrc := vhPathModel("path", pshape)
	if sep > 0 {
		// blank-indented (copy-pasted) traces: a path that itself starts with a
		// blank cannot be told from more indentation
		vAssume(vAnd(path[0] != ' ', path[0] != '\t'))
	}
	ld, ln := vhDigits("ln", lnk)
	line := vhCat(lead, []byte(path), []byte(":"), ld)
	if off == 1 {
		h, _ := vhHex("off", 3)
		line = vhCat(line, []byte(" +0x"), h)
	}
	if regs >= 1 {
		h1, _ := vhHex("fp", 2)
		h2, _ := vhHex("sp", 2)
		line = vhCat(line, []byte(" fp=0x"), h1, []byte(" sp=0x"), h2)
		if regs == 2 {
			h3, _ := vhHex("pc", 2)
			line = vhCat(line, []byte(" pc=0x"), h3)
		}
	}
	line = vhCat(line, vhEOL(eol))
	before := vhRemember(s)
	proc, err := s.scan(line)
	vReach("file line scanned")
	vAssert(proc, "file line consumed")
	vAssert(err == nil, "file line gives no error")
	cur := s.Goroutines[1]
	var c, old *Call
	if state(from) == gotFunc {
		vAssert(s.state == gotFileFunc, "state after a frame's file line")
		vAssert(len(cur.Stack.Calls) == 2 && len(cur.CreatedBy.Calls) == 1, "no frame added or dropped")
		c, old = &cur.Stack.Calls[1], &before[1].sg.Stack.Calls[1]
		vAssert(vhStackEq(&Stack{Calls: cur.Stack.Calls[:1]}, &Stack{Calls: before[1].sg.Stack.Calls[:1]}), "earlier frames untouched")
	} else {
		vAssert(s.state == gotFileCreated, "state after the creator's file line")
		vAssert(len(cur.Stack.Calls) == 2 && len(cur.CreatedBy.Calls) == 1, "no frame added or dropped")
		c, old = &cur.CreatedBy.Calls[0], &before[1].sg.CreatedBy.Calls[0]
		vAssert(vhStackEq(&cur.Stack, &before[1].sg.Stack), "stack untouched by the creator's file line")
	}
	vhUnchanged(s, before, 1, "other goroutines untouched by a file line")
	vAssert(c.RemoteSrcPath == path, "source path")
	vAssert(c.Line == ln, "line number")
	vAssert(c.SrcName == srcName, "base file name")
	vAssert(c.DirSrc == dirSrc, "directory plus file name")
	vAssert(c.Func.Complete == old.Func.Complete, "function untouched by the file line")
	vAssert(vhArgsEq(&c.Args, &old.Args), "arguments untouched by the file line")
}

// ---------------------------------------------------------------- created by / markers

// VH_C01_Created: "created by symbol[ in goroutine N]".
//
//verif:prop C01
//verif:param from 6,8
//verif:param tmpl 0..8
//verif:param ing quick=0,2 thorough=0,1,2,18
//verif:param eol 0..1
func VH_C01_Created(from, tmpl, ing, eol int) {
	s := vhPre(from, 0, 2, 1, 0, 0)
	raw, imp, name := vhSymbol("sym", tmpl)
	line := vhCat([]byte("created by "), raw)
	if ing > 0 {
		d, _ := vhDigits("creator", ing)
		line = vhCat(line, []byte(" in goroutine "), d)
	}
	line = vhCat(line, vhEOL(eol))
	before := vhRemember(s)
	proc, err := s.scan(line)
	vReach("created-by line scanned")
	vAssert(proc, "created-by line consumed")
	vAssert(err == nil, "created-by line gives no error")
	vAssert(s.state == gotCreated, "state after created-by")
	vhUnchanged(s, before, 1, "other goroutines untouched by created-by")
	cur := s.Goroutines[1]
	vAssert(vhStackEq(&cur.Stack, &before[1].sg.Stack), "stack untouched by created-by")
	vAssert(len(cur.CreatedBy.Calls) == 1, "one creator frame")
	if len(cur.CreatedBy.Calls) != 1 {
		return
	}
	c := &cur.CreatedBy.Calls[0]
	complete := name
	if tmpl != 5 {
		complete = imp + "." + name
	}
	if ing > 0 {
		// Complete keeps the raw text; the name loses the " in goroutine N" suffix
		vAssert(c.Func.Name == name, "creator name without the goroutine suffix")
	} else {
		vAssert(c.Func.Complete == complete, "creator complete name")
		vAssert(c.Func.Name == name, "creator name")
	}
	vAssert(c.Func.ImportPath == imp, "creator import path")
}

// VH_C01_Markers: elided-frame markers, unavailable stack, blank line.
//
//verif:prop C01
//verif:param kind 0..4
//verif:param eol 0..1
//verif:param cnt quick=1,3 thorough=1..3
//verif:summarize atou
func VH_C01_Markers(kind, eol, cnt int) {
	var s *scanningState
	var line []byte
	want := gotFileFunc
	switch kind {
	case 0:
		s = vhPre(int(gotFileFunc), 0, 2, 1, 0, 0)
		line = []byte("...additional frames elided...")
	case 1:
		s = vhPre(int(gotFileFunc), 0, 2, 1, 0, 0)
		d, _ := vhDigits("n", cnt)
		line = vhCat([]byte("..."), d, []byte(" frames elided..."))
	case 2:
		s = vhPre(int(gotRoutineHeader), 0, 2, 0, 0, 0)
		line = []byte("\tgoroutine running on other thread; stack unavailable")
		want = gotUnavail
	case 3:
		s = vhPre(int(gotFileFunc), 0, 2, 1, 0, 0)
		want = betweenRoutine
	default:
		s = vhPre(int(gotFileCreated), 0, 2, 1, 1, 0)
		want = betweenRoutine
	}
	line = vhCat(line, vhEOL(eol))
	before := vhRemember(s)
	proc, err := s.scan(line)
	vReach("marker line scanned")
	vAssert(proc && err == nil, "marker line consumed without error")
	vAssert(s.state == want, "state after marker line")
	vhUnchanged(s, before, 1, "other goroutines untouched by a marker line")
	cur := s.Goroutines[1]
	switch kind {
	case 0, 1:
		vAssert(cur.Stack.Elided, "elided marker recorded")
		vAssert(len(cur.Stack.Calls) == 1, "frames kept")
	case 2:
		vAssert(len(cur.Stack.Calls) == 1 && cur.Stack.Calls[0].RemoteSrcPath == "<unavailable>", "unavailable stack recorded as one pseudo frame")
	default:
		vAssert(vhSigEq(&cur.Signature, &before[1].sg), "blank line changes nothing")
	}
}
