//go:build verif

package stack

// C18 (reduced to the pure mapping step) and the C06 clause on GOPATH/go.mod
// maps: Call.updateLocations, hasPrefix/hasSrcPrefix, splitPath, Call.init.

func vhPathStr(tag string, n int) string {
	b := vBytes(tag, n)
	for _, ch := range b {
		vAssume(vAnd(ch != 0, ch < 0x80))
	}
	return string(b)
}

// VH_C18_UpdateLocations: one frame against a remote GOROOT, <=2 GOPATH roots and
// <=2 go.mod roots with symbolic short names.
//
//verif:prop C18
//verif:param np quick=6,9 thorough=4..11
//verif:param ngp 0..2
//verif:param ngm quick=0,1 thorough=0..2
//verif:param hasroot 0..1
//verif:param preloc 0,4
//verif:param nest 0..1
//verif:replay-iters 50
func VH_C18_UpdateLocations(np, ngp, ngm, hasroot, preloc, nest int) {
	if nest == 1 {
		np += 4 // room for nested roots such as "a" and "a/src/b", "ab" and "ab/c"
	}
	c := Call{}
	c.RemoteSrcPath = vPathOrEmpty("remote", np)
	c.Location = Location(preloc) // Stdlib when Call.init saw _test/_testmain.go
	c.ImportPath = "orig"
	goroot := ""
	if hasroot == 1 {
		goroot = vhPathStr("goroot", 2)
	}
	gopaths := map[string]string{}
	var gpk []string
	for i := 0; i < ngp; i++ {
		k := vhPathStr("gp"+string(rune('0'+i)), 1+i+5*i*nest)
		gopaths[k] = "L" + string(rune('0'+i))
		gpk = append(gpk, k)
	}
	gomods := map[string]string{}
	var gmk []string
	for i := 0; i < ngm; i++ {
		k := vhPathStr("gm"+string(rune('0'+i)), 2+i+i*nest)
		gomods[k] = "mod" + string(rune('0'+i))
		gmk = append(gmk, k)
	}
	before := c
	ok := c.updateLocations(goroot, "LR", gomods, gopaths)
	vReach("locations updated")
	if !ok {
		vAssert(vAnd(c.LocalSrcPath == "", vAnd(c.RelSrcPath == "", vAnd(c.ImportPath == before.ImportPath, c.Location == before.Location))), "an unresolved frame is left untouched")
		// and indeed no root explains it
		if goroot != "" {
			vAssert(vNot(vhHasPfx(c.RemoteSrcPath, goroot+"/src/")), "unresolved although under the remote GOROOT")
		}
		for _, k := range gpk {
			vAssert(vNot(vhHasPfx(c.RemoteSrcPath, k+"/src/")), "unresolved although under a GOPATH source tree")
			vAssert(vNot(vhHasPfx(c.RemoteSrcPath, k+"/pkg/mod/")), "unresolved although under a module cache")
		}
		for _, k := range gmk {
			vAssert(vNot(vhHasPfx(c.RemoteSrcPath, k+"/")), "unresolved although under a go.mod root")
		}
		return
	}
	vAssert(c.RemoteSrcPath == before.RemoteSrcPath, "remote path untouched")
	// the relative path is a suffix of both paths
	vAssert(vhHasSfx(c.RemoteSrcPath, c.RelSrcPath), "remote path ends with the relative path")
	vAssert(vhHasSfx(c.LocalSrcPath, c.RelSrcPath), "local path ends with the relative path")
	// the matched root + separator is what precedes the relative path
	root := c.RemoteSrcPath[:len(c.RemoteSrcPath)-len(c.RelSrcPath)]
	okRoot := false
	wantLoc := LocationUnknown
	if goroot != "" && root == goroot+"/src/" {
		okRoot, wantLoc = true, Stdlib
	}
	for i, k := range gpk {
		if root == k+"/src/" {
			okRoot = true
			wantLoc = GOPATH
			vAssert(vOr(wantLoc != c.Location, c.LocalSrcPath == "L"+string(rune('0'+i))+"/src/"+c.RelSrcPath), "GOPATH frames map under the local GOPATH")
		}
		if root == k+"/pkg/mod/" {
			okRoot = true
			if wantLoc == LocationUnknown {
				wantLoc = GoPkg
			}
		}
	}
	for _, k := range gmk {
		if root == k+"/" {
			okRoot = true
			if wantLoc == LocationUnknown {
				wantLoc = GoMod
			}
		}
	}
	vAssert(okRoot, "the part before the relative path is a detected root plus its separator")
	// the most specific root of a kind wins: no longer root of the same kind explains the frame
	for _, k := range gpk {
		for _, sep := range []string{"/src/", "/pkg/mod/"} {
			if (wantLoc == GOPATH || wantLoc == GoPkg) && len(k+sep) > len(root) {
				vAssert(vNot(vhHasPfx(c.RemoteSrcPath, k+sep)), "a nested GOPATH root is preferred to the one containing it")
			}
		}
	}
	for _, k := range gmk {
		if wantLoc == GoMod && len(k)+1 > len(root) {
			vAssert(vNot(vhHasPfx(c.RemoteSrcPath, k+"/")), "a nested module root is preferred to the one containing it")
		}
	}
	// import path: the directory of the relative path (module-qualified for go.mod roots);
	// a file lying directly in its root keeps / gets the package's own path
	slash := -1
	for i := 0; i < len(c.RelSrcPath); i++ {
		slash = vIte(c.RelSrcPath[i] == '/', i, slash)
	}
	slash = vConcretize(slash)
	switch wantLoc {
	case Stdlib, GOPATH, GoPkg:
		if slash >= 0 {
			vAssert(c.ImportPath == c.RelSrcPath[:slash], "import path is the directory of the relative path")
		} else {
			vAssert(c.ImportPath == before.ImportPath, "a file directly in its root keeps its import path")
		}
	case GoMod:
		for i, k := range gmk {
			if root == k+"/" {
				pkg := "mod" + string(rune('0'+i))
				if slash >= 0 {
					vAssert(c.ImportPath == pkg+"/"+c.RelSrcPath[:slash], "module-qualified import path")
				} else {
					vAssert(c.ImportPath == pkg, "a file in the module root belongs to the module's own package")
				}
			}
		}
	}
	if preloc != 0 {
		vAssert(c.Location == Location(preloc), "a class set earlier (go-test main) is kept")
	}
}

func vPathOrEmpty(tag string, n int) string {
	if n == 0 {
		return ""
	}
	return vhPathStr(tag, n)
}

func vhHasPfx(s, p string) bool {
	if len(p) > len(s) {
		return false
	}
	return s[:len(p)] == p
}

func vhHasSfx(s, p string) bool {
	if len(p) > len(s) {
		return false
	}
	return s[len(s)-len(p):] == p
}

// VH_C06_LocationsDeterministic: the mapping does not depend on the iteration
// order of the GOPATH / go.mod maps (two calls on equal frames = two orders).
//
//verif:prop C06
//verif:param np quick=13 thorough=9..14
//verif:param ngp 2
//verif:param ngm 0
//verif:replay-iters 100
func VH_C06_LocationsDeterministic(np, ngp, ngm int) {
	c1 := Call{RemoteSrcPath: vhPathStr("remote", np)}
	c2 := c1
	gopaths := map[string]string{}
	for i := 0; i < ngp; i++ {
		// lengths 1 and 7 allow nested roots such as "a" and "a/src/b"
		gopaths[vhPathStr("gp"+string(rune('0'+i)), 1+6*i)] = "L" + string(rune('0'+i))
	}
	gomods := map[string]string{}
	for i := 0; i < ngm; i++ {
		gomods[vhPathStr("gm"+string(rune('0'+i)), 2+i)] = "mod" + string(rune('0'+i))
	}
	vAssume(len(gopaths) == ngp)
	ok1 := c1.updateLocations("", "LR", gomods, gopaths)
	ok2 := c2.updateLocations("", "LR", gomods, gopaths)
	vReach("mapped twice")
	vAssert(ok1 == ok2, "resolution does not depend on map order")
	vAssert(vAnd(c1.LocalSrcPath == c2.LocalSrcPath, vAnd(c1.RelSrcPath == c2.RelSrcPath, vAnd(c1.ImportPath == c2.ImportPath, c1.Location == c2.Location))), "mapping does not depend on map order")
}

// VH_C18_CallInit: Call.init derives SrcName/DirSrc from the path and flags the
// go-test generated main as standard library.
//
//verif:prop C18
//verif:param n quick=0,5,9 thorough=0..12
func VH_C18_CallInit(n int) {
	c := Call{}
	c.Func.ImportPath = "ip"
	p := vPathOrEmpty("path", n)
	c.init(p, 7)
	vReach("call initialised")
	vAssert(c.Line == 7 && c.ImportPath == "ip", "line and import path")
	if n == 0 {
		vAssert(c.RemoteSrcPath == "" && c.SrcName == "" && c.DirSrc == "", "empty path leaves the file fields empty")
		return
	}
	vAssert(c.RemoteSrcPath == p, "remote path")
	vAssert(vhHasSfx(p, c.SrcName), "base name is a suffix of the path")
	vAssert(vhHasSfx(p, c.DirSrc), "dir+file is a suffix of the path")
	isTestMain := vhHasSfx(p, "/_test/_testmain.go")
	vAssert(vImplies(isTestMain, c.Location == Stdlib), "the go-test generated main is treated as standard library")
	vAssert(vImplies(c.Location == Stdlib, c.DirSrc == "_test/_testmain.go"), "only the go-test generated main is pre-classified")
}

// VH_C18_SplitPath: splitting on "/" loses nothing: for a path without empty
// elements, joining the parts gives the path back.
//
//verif:prop C18
//verif:param n quick=1,4,6 thorough=1..8
func VH_C18_SplitPath(n int) {
	p := vhPathStr("p", n)
	// no empty element: no "//" and no trailing "/"
	for i := 0; i+1 < n; i++ {
		vAssume(vNot(vAnd(p[i] == '/', p[i+1] == '/')))
	}
	vAssume(p[n-1] != '/')
	parts := splitPath(p)
	vReach("path split")
	vAssert(len(parts) > 0, "a non-empty path has parts")
	if len(parts) > 0 {
		vAssert(pathJoin(parts...) == p, "joining the parts gives the path back")
		for i, part := range parts {
			if i > 0 {
				for j := 0; j < len(part); j++ {
					vAssert(part[j] != '/', "only the first part keeps a separator")
				}
			}
		}
	}
}

// VH_C18_IsRootedIn: with an arbitrary file system (isFile answers anything),
// the root returned joined with the probed suffix is the input path.
//
//verif:prop C18
//verif:param k 1..4
func VH_C18_IsRootedIn(k int) {
	parts := make([]string, k)
	for i := range parts {
		parts[i] = vhPathStr("part"+string(rune('0'+i)), 1)
		vAssume(parts[i] != "/")
	}
	r := isRootedIn("/local", parts)
	vReach("probed")
	full := pathJoin(parts...)
	if r == "" {
		return
	}
	vAssert(len(r) < len(full) && full[:len(r)] == r, "the detected remote root is a proper prefix of the path")
	if len(r) < len(full) {
		vAssert(full[len(r)] == '/', "the root ends at a path separator")
	}
}

// VH_C18_RootFound: with exactly one file on disk, root + "/" + the last j path
// elements, isRootedIn finds the remote root made of the other elements - for
// every split point, including a file lying directly in the root.
//
//verif:prop C18
//verif:param k 2..4
//verif:param j 1..3
func VH_C18_RootFound(k, j int) {
	if j >= k {
		return
	}
	parts := make([]string, k)
	for i := range parts {
		b := vBytes("part"+string(rune('0'+i)), 1)
		vAssume(vAnd(b[0] >= 'a', b[0] <= 'z'))
		parts[i] = string(b)
	}
	root := vTempRoot()
	vSetFile(pathJoin(root, pathJoin(parts[k-j:]...)))
	r := isRootedIn(root, parts)
	vReach("probed with one existing file")
	vAssert(r == pathJoin(parts[:k-j]...), "the remote root is what precedes the path that exists under the local root")
}

// VH_C03_FindRoots: root detection never panics, whatever single file exists
// under the local GOROOT / GOPATH trees and however short the remote path is.
// The remote path has k one-byte elements; the file that exists locally is
// <local root>/<tree>/<last j elements>.
//
// k = 0 is a frame without a file line (cut or malformed dump: empty path),
// k = 1 a file directly under the root directory.
//
//verif:prop C03
//verif:param k 0..4
//verif:param j 1..3
//verif:param tree 0..2
func VH_C03_FindRoots(k, j, tree int) {
	if k < 2 {
		if j != 1 {
			return
		}
		j = 0
	} else if j >= k {
		return
	}
	parts := make([]string, k)
	for i := range parts {
		b := vBytes("part"+string(rune('0'+i)), 1)
		vAssume(vAnd(b[0] >= 'a', b[0] <= 'z'))
		parts[i] = string(b)
	}
	remote := "/" + pathJoin(parts...)
	if k == 0 {
		remote = ""
	}
	root := vTempRoot()
	s := &Snapshot{LocalGOROOT: root + "/goroot", LocalGOPATHs: []string{root + "/gopath"}}
	switch tree {
	case 0:
		vSetFile(pathJoin(s.LocalGOROOT, "src", pathJoin(parts[k-j:]...)))
	case 1:
		vSetFile(pathJoin(s.LocalGOPATHs[0], "src", pathJoin(parts[k-j:]...)))
	default:
		vSetFile(pathJoin(s.LocalGOPATHs[0], "pkg/mod", pathJoin(parts[k-j:]...)))
	}
	g := &Goroutine{ID: 1, First: true}
	g.Stack.Calls = []Call{{RemoteSrcPath: remote}}
	s.Goroutines = []*Goroutine{g}
	missing := s.findRoots()
	vReach("roots searched")
	vAssert(missing >= 0, "findRoots returns a count")
	_ = s.guessPaths()
}

// VH_C14_SharedOpts: scanning with path guessing does not write to the options
// value it is given (which other goroutines may be scanning with at the same
// time): two local GOPATHs, the file named by the dump exists under the
// which-th one (src tree or module cache), the dump goes through ScanSnapshot.
// Everything reachable from opts is allocated before the write barrier.
//
// long = 1 puts a 20000-byte line of text (longer than the reader's buffer)
// before the dump: scanning keeps no state outside the call either - a write to
// a package-level variable would be shared by concurrent scans.
//
//verif:prop C14
//verif:param which 0..1
//verif:param tree 0..1
//verif:param k 2..3
//verif:param long 0..1
func VH_C14_SharedOpts(which, tree, k, long int) {
	parts := make([]string, k)
	for i := range parts {
		b := vBytes("part"+string(rune('0'+i)), 1)
		vAssume(vAnd(b[0] >= 'a', b[0] <= 'z'))
		parts[i] = string(b)
	}
	root := vTempRoot()
	gp := []string{root + "/gp1", root + "/gp2"}
	opts := &Opts{LocalGOROOT: root + "/goroot", LocalGOPATHs: gp, GuessPaths: true}
	sub := "src"
	if tree == 1 {
		sub = "pkg/mod"
	}
	vSetFile(pathJoin(gp[which], sub, pathJoin(parts[1:]...)) + ".go")
	// remote workspace /<parts[0]>, same tree below it
	dump := "goroutine 1 [running]:\nmain.f()\n\t/" + pathJoin(parts[0], sub, pathJoin(parts[1:]...)) + ".go:1 +0x1\n\n"
	if long == 1 {
		text := make([]byte, 20000)
		for i := range text {
			text[i] = byte('a' + i%23)
		}
		text[len(text)-1] = '\n'
		dump = string(text) + dump
	}
	vBarrierOn()
	f := &vhFeeder{data: []byte(dump)} // the stream and the sink are this call's own
	sink := &vhSink{}
	s, _, _ := ScanSnapshot(f, sink, opts)
	vBarrierOff()
	vReach("scanned with shared options")
	vAssert(s != nil && len(s.Goroutines) == 1, "the dump is parsed")
	vAssert(len(opts.LocalGOPATHs) == 2 && opts.LocalGOPATHs[0] == root+"/gp1" && opts.LocalGOPATHs[1] == root+"/gp2", "the caller's GOPATH list is unchanged")
	vAssert(opts.LocalGOROOT == root+"/goroot", "the caller's GOROOT is unchanged")
	if len(s.RemoteGOPATHs) != 0 {
		vReach("a remote workspace was mapped")
	}
}

// VH_C18_EveryFrame: rebasing is per frame: in a signature of nfr stack frames
// plus a creator frame, the frame at index bad lies under no known root (it
// stays unresolved) and every other frame - before and after it - lies under
// the remote GOPATH and is rebased onto the local one, whatever the outcome for
// its neighbours.
//
//verif:prop C18
//verif:param nfr 2..3
//verif:param bad 0..2
func VH_C18_EveryFrame(nfr, bad int) {
	if bad >= nfr {
		return
	}
	name := func(tag string) string {
		b := vBytes(tag, 1)
		vAssume(vAnd(b[0] >= 'a', b[0] <= 'z'))
		return string(b)
	}
	sig := &Signature{}
	rels := make([]string, nfr)
	for i := 0; i < nfr; i++ {
		c := Call{}
		rels[i] = name("pkg"+string(rune('0'+i))) + "/" + name("file"+string(rune('0'+i))) + ".go"
		if i == bad {
			c.RemoteSrcPath = "/zz/" + rels[i]
		} else {
			c.RemoteSrcPath = "/gp/src/" + rels[i]
		}
		sig.Stack.Calls = append(sig.Stack.Calls, c)
	}
	// creator chain: one frame under the remote GOROOT, one under the remote GOPATH
	sig.CreatedBy.Calls = []Call{{RemoteSrcPath: "/gr/src/c/c.go"}, {RemoteSrcPath: "/gp/src/c/c.go"}}
	ok := sig.updateLocations("/gr", "/LR", map[string]string{}, map[string]string{"/gp": "/LP"})
	vReach("signature rebased")
	vAssert(!ok, "an unresolved frame is reported")
	for i := 0; i < nfr; i++ {
		c := &sig.Stack.Calls[i]
		if i == bad {
			vAssert(vAnd(c.LocalSrcPath == "", c.Location == LocationUnknown), "the frame under no root stays unresolved")
		} else {
			vAssert(c.LocalSrcPath == "/LP/src/"+rels[i], "a frame under the remote GOPATH is rebased whatever its neighbours are")
			vAssert(vAnd(c.RelSrcPath == rels[i], c.Location == GOPATH), "a frame under the remote GOPATH gets its relative path and class whatever its neighbours are")
		}
	}
	vAssert(sig.CreatedBy.Calls[0].LocalSrcPath == "/LR/src/c/c.go" && sig.CreatedBy.Calls[0].Location == Stdlib, "a creator frame under the remote GOROOT is rebased onto the local GOROOT")
	vAssert(sig.CreatedBy.Calls[1].LocalSrcPath == "/LP/src/c/c.go" && sig.CreatedBy.Calls[1].Location == GOPATH, "a creator frame under the remote GOPATH is rebased onto the local GOPATH")
}

// VH_C18_SiblingRoots: root detection with a remote GOROOT and a remote GOPATH
// whose names may share a prefix (/opt/go and /opt/gopath): one file under each,
// both present locally; both roots are found and both frames rebased. Root
// names are one and two symbolic bytes, so "one is a string prefix of the other"
// is among the cases.
//
//verif:prop C18
//verif:param order 0..1
func VH_C18_SiblingRoots(order int) {
	letter := func(tag string) byte {
		b := vByte(tag)
		vAssume(vAnd(b >= 'a', b <= 'z'))
		return b
	}
	gr := string([]byte{letter("gr0")})
	gp := string([]byte{letter("gp0"), letter("gp1")})
	root := vTempRoot()
	s := &Snapshot{LocalGOROOT: root + "/goroot", LocalGOPATHs: []string{root + "/gopath"}}
	vSetFile(s.LocalGOROOT + "/src/fmt/print.go")
	vSetFile(s.LocalGOPATHs[0] + "/src/p/q.go")
	std := Call{RemoteSrcPath: "/" + gr + "/src/fmt/print.go"}
	usr := Call{RemoteSrcPath: "/" + gp + "/src/p/q.go"}
	g := &Goroutine{ID: 1, First: true}
	if order == 0 {
		g.Stack.Calls = []Call{std, usr}
	} else {
		g.Stack.Calls = []Call{usr, std}
	}
	s.Goroutines = []*Goroutine{g}
	_ = s.guessPaths()
	vReach("roots guessed")
	vAssert(s.RemoteGOROOT == "/"+gr, "the remote GOROOT is found")
	vAssert(s.RemoteGOPATHs["/"+gp] == s.LocalGOPATHs[0], "the remote GOPATH is found although its name may start like the GOROOT's")
	for i := range g.Stack.Calls {
		c := &g.Stack.Calls[i]
		if c.RemoteSrcPath == std.RemoteSrcPath {
			vAssert(c.LocalSrcPath == s.LocalGOROOT+"/src/fmt/print.go", "the standard library frame is rebased")
		} else {
			vAssert(c.LocalSrcPath == s.LocalGOPATHs[0]+"/src/p/q.go", "the GOPATH frame is rebased")
		}
	}
}
