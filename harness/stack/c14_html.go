//go:build verif

package stack

// C14, rendering side: the HTML template's helper functions (pkgURL, srcURL,
// funcClass, symbol - what the template calls on every frame of the snapshot
// it renders) write nothing that existed before the call. The template engine
// itself (html/template, reflection) is outside the encoder's reach (C17); its
// callbacks into this package are these functions.

// VH_C14_HTMLHelpers: frame shapes: 0 vendored package, 1 standard library,
// 2 module cache with a version, 3 golang.org/x with a pseudo-version,
// 4 local file only, 5 gopkg.in style host; line number, exported and main
// flags symbolic.
//
//verif:prop C14
//verif:param shape 0..5
func VH_C14_HTMLHelpers(shape int) {
	c := &Call{}
	c.Line = vInt("line")
	vAssume(c.Line >= 0)
	c.Func.IsExported = vBool("exported")
	c.Func.IsPkgMain = vBool("main")
	c.Func.Name = "Foo"
	switch shape {
	case 0:
		c.ImportPath = "github.com/a/b/vendor/github.com/c/d"
		c.RelSrcPath = "github.com/a/b/vendor/github.com/c/d/x.go"
		c.Location = GOPATH
		c.Func.Name = "(*T).Bar"
	case 1:
		c.ImportPath = "net/http"
		c.RelSrcPath = "net/http/server.go"
		c.Location = Stdlib
	case 2:
		c.ImportPath = "github.com/c/d"
		c.RelSrcPath = "github.com/c/d@v1.2.3/x.go"
		c.Location = GoPkg
	case 3:
		c.ImportPath = "golang.org/x/sys/unix"
		c.RelSrcPath = "golang.org/x/sys@v0.0.0-20200223170610-d5e6a3e2c0ae/unix/x.go"
		c.Location = GoPkg
		c.Func.Name = "(T).Baz"
	case 4:
		c.ImportPath = "main"
		c.LocalSrcPath = "/home/u/my prog/main.go"
		c.RemoteSrcPath = "/r/main.go"
		c.Location = GoMod
	default:
		c.ImportPath = "gopkg.in/yaml.v2"
		c.RelSrcPath = "gopkg.in/yaml.v2@v2.4.0/decode.go"
		c.RemoteSrcPath = "/r/pkg/mod/gopkg.in/yaml.v2@v2.4.0/decode.go"
		c.Location = GoPkg
	}
	before := *c
	vBarrierOn()
	cls := funcClass(c)
	pu := pkgURL(c)
	su := srcURL(c)
	sy := symbol(&c.Func)
	vBarrierOff()
	vReach("helpers called under write barrier")
	_, _, _, _ = cls, pu, su, sy
	same := c.ImportPath == before.ImportPath && c.RelSrcPath == before.RelSrcPath && c.LocalSrcPath == before.LocalSrcPath &&
		c.RemoteSrcPath == before.RemoteSrcPath && c.Func.Name == before.Func.Name && c.Location == before.Location
	vAssert(same, "the frame is unchanged by the HTML helper functions")
	vAssert(c.Line == before.Line, "the line is unchanged by the HTML helper functions")
}

// VH_C14_ToHTML: the code of Snapshot.ToHTML / Aggregated.ToHTML around the
// template engine (which is not interpreted: building the template succeeds,
// executing it does nothing) writes nothing that existed before the call: a
// snapshot scanned without path guessing, whose source file exists on the
// declared file system, is rendered and keeps its unresolved frames.
//
//verif:prop C14
//verif:param agg 0..1
func VH_C14_ToHTML(agg int) {
	b := vBytes("pkg", 1)
	vAssume(vAnd(b[0] >= 'a', b[0] <= 'z'))
	rel := string(b) + "/x.go"
	root := vTempRoot()
	vSetFile(root + "/gopath/src/" + rel)
	s := &Snapshot{LocalGOROOT: root + "/goroot", LocalGOPATHs: []string{root + "/gopath"}}
	for i := 0; i < 2; i++ {
		g := &Goroutine{ID: i + 1, First: i == 0}
		g.State = "running"
		c := Call{RemoteSrcPath: "/r/src/" + rel, Line: 3 + i}
		c.Func.Complete, c.Func.Name, c.Func.DirName, c.Func.ImportPath = "main.f", "f", "main", "main"
		c.SrcName, c.DirSrc = "x.go", rel
		g.Stack.Calls = []Call{c}
		s.Goroutines = append(s.Goroutines, g)
	}
	var a *Aggregated
	if agg == 1 {
		a = s.Aggregate(AnyValue)
	}
	vBarrierOn()
	w := &vhSink{}
	var err error
	if agg == 1 {
		err = a.ToHTML(w, "")
	} else {
		err = s.ToHTML(w, "")
	}
	vBarrierOff()
	vReach("rendered to HTML under write barrier")
	_ = err
	for _, g := range s.Goroutines {
		c := &g.Stack.Calls[0]
		vAssert(c.LocalSrcPath == "" && c.RelSrcPath == "" && c.Location == LocationUnknown && c.ImportPath == "", "rendering leaves the snapshot's frames as they were")
	}
	vAssert(s.RemoteGOROOT == "" && s.RemoteGOPATHs == nil && s.LocalGomods == nil, "rendering leaves the snapshot's roots as they were")
}
