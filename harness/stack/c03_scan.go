//go:build verif

package stack

// VH_C03_ScanStep: from every scanner state satisfying Inv, every line of n
// bytes is scanned without a runtime panic and leaves a state satisfying Inv.
// By induction over lines this covers dumps with any number of lines.
// sh selects the heap shape: 0 = minimal shape allowed by Inv for the state,
// 1 = a richer shape (more goroutines / calls).
//
//verif:prop C03
//verif:param st 0..19
//verif:param n quick=1..14 thorough=1..26
//verif:param plen 0..1
//verif:param sh 0..1
//verif:contract (*Func).Init parseArgs
//verif:summarize trimLeftSpace atou
func VH_C03_ScanStep(st, n, plen, sh int) {
	ng, nc, ncb, gi := vhShape(st, sh)
	if state(st) == looking && plen != 0 {
		return // excluded by Inv
	}
	if (state(st) == gotRaceHeader1 || state(st) == gotRaceHeader2) && sh != 0 {
		return
	}
	s := vhPre(st, plen, ng, nc, ncb, gi)
	if !vhInv(s) {
		vAssert(false, "harness bug: pre-state violates Inv")
		return
	}
	line := vhLine(n)
	_, _ = s.scan(line)
	vReach("line scanned")
	vAssert(vhInv(s), "representation invariant holds after the step")
}

// vhShape: heap shapes per state.
func vhShape(st, sh int) (ng, nc, ncb, gi int) {
	switch state(st) {
	case looking, done:
		if sh == 0 {
			return 0, 0, 0, 0
		}
		return 1, 1, 0, 0
	case gotRaceHeader1, gotRaceHeader2:
		return 0, 0, 0, 0
	case gotFunc, gotRaceOperationFunc:
		if sh == 0 {
			return 1, 1, 0, 0
		}
		return 2, 2, 0, 0
	case gotCreated:
		if sh == 0 {
			return 1, 1, 1, 0
		}
		return 2, 2, 1, 0
	case gotRaceGoroutineFunc:
		if sh == 0 {
			return 1, 1, 1, 0
		}
		return 3, 1, 2, 1
	case gotRaceGoroutineHeader, gotRaceGoroutineFile:
		if sh == 0 {
			return 1, 1, 0, 0
		}
		return 3, 1, 1, 1
	case gotRoutineHeader:
		if sh == 0 {
			return 1, 0, 0, 0
		}
		return 2, 0, 0, 0
	}
	if sh == 0 {
		return 1, 1, 0, 0
	}
	return 2, 2, 1, 0
}
