//go:build verif

package stack

// VH_C03_ScanStep: from every scanner state satisfying Inv, every line of n
// bytes is scanned without a runtime panic and leaves a state satisfying Inv.
// By induction over lines this covers dumps with any number of lines.
// sh selects the heap shape: 0 = minimal shape allowed by Inv for the state,
// 1 = a richer shape (more goroutines / calls).
//
//verif:prop C03
//verif:param st 0..19
//verif:param n quick=1..14 thorough=1..26
//verif:param plen 0..2
//verif:param sh 0..1
//verif:contract (*Func).Init parseArgs
//verif:summarize trimLeftSpace atou
func VH_C03_ScanStep(st, n, plen, sh int) {
	ng, nc, ncb, gi := vhShape(st, sh)
	if state(st) == looking && plen != 0 {
		return // excluded by Inv
	}
	if (state(st) == gotRaceHeader1 || state(st) == gotRaceHeader2 || state(st) == looking) && sh != 0 {
		return
	}
	s := vhPre(st, plen, ng, nc, ncb, gi)
	if !vhInv(s) {
		vAssert(false, "harness bug: pre-state violates Inv")
		return
	}
	line := vhLine(n)
	_, _ = s.scan(line)
	vReach("line scanned")
	vAssert(vhInv(s), "representation invariant holds after the step")
}

// vhShape: heap shapes per state.
func vhShape(st, sh int) (ng, nc, ncb, gi int) {
	switch state(st) {
	case looking:
		return 0, 0, 0, 0
	case done:
		if sh == 0 {
			return 0, 0, 0, 0
		}
		return 1, 1, 0, 0
	case gotRaceHeader1, gotRaceHeader2:
		return 0, 0, 0, 0
	case gotFunc, gotRaceOperationFunc:
		if sh == 0 {
			return 1, 1, 0, 0
		}
		return 2, 2, 0, 0
	case gotCreated:
		if sh == 0 {
			return 1, 1, 1, 0
		}
		return 2, 2, 1, 0
	case gotRaceGoroutineFunc:
		if sh == 0 {
			return 1, 1, 1, 0
		}
		return 3, 1, 2, 1
	case gotRaceGoroutineHeader, gotRaceGoroutineFile:
		if sh == 0 {
			return 1, 1, 0, 0
		}
		return 3, 1, 1, 1
	case gotRoutineHeader:
		if sh == 0 {
			return 1, 0, 0, 0
		}
		return 2, 0, 0, 0
	}
	if sh == 0 {
		return 1, 1, 0, 0
	}
	return 2, 2, 1, 0
}

// VH_C10_StepFrame: whatever line arrives (complete, or cut anywhere and hence
// without its newline), a scan step changes at most the goroutine being read —
// the last one, or in a race report's creation section the one it names —
// goroutines completed earlier are never touched.
//
//verif:prop C10
//verif:param st 2..18
//verif:param n quick=1,2,5,9 thorough=1..14
//verif:contract (*Func).Init parseArgs
//verif:summarize trimLeftSpace atou
func VH_C10_StepFrame(st, n int) {
	if state(st) == gotRaceHeader1 || state(st) == gotRaceHeader2 {
		return
	}
	ng, nc, ncb, gi := vhShape(st, 1)
	s := vhPre(st, 0, ng, nc, ncb, gi)
	line := vhLine(n)
	before := vhRemember(s)
	_, _ = s.scan(line)
	vReach("line scanned")
	vAssert(len(s.Goroutines) >= ng, "no goroutine is dropped by a step")
	raceCreator := state(st) == gotRaceGoroutineHeader || state(st) == gotRaceGoroutineFunc || state(st) == gotRaceGoroutineFile
	raceSelect := state(st) == betweenRaceOperations || state(st) == betweenRaceGoroutines
	for i := 0; i < ng && i < len(s.Goroutines); i++ {
		if i == ng-1 && !raceCreator {
			continue // the goroutine being read
		}
		if raceCreator && i == gi {
			continue
		}
		g := s.Goroutines[i]
		vAssert(g == before[i].g, "earlier goroutine is the same object")
		if raceSelect {
			// a creation header may set the state of the goroutine it names
			vAssert(vAnd(g.ID == before[i].id, vAnd(vhStackEq(&g.Stack, &before[i].sg.Stack), vhStackEq(&g.CreatedBy, &before[i].sg.CreatedBy))), "earlier goroutine keeps id and stacks")
		} else {
			vAssert(vAnd(g.ID == before[i].id, g.First == before[i].fi), "earlier goroutine keeps id/first")
			vAssert(vhSigEq(&g.Signature, &before[i].sg), "earlier goroutine's signature untouched")
		}
	}
}

// VH_C03_AggregateShapes: goroutines whose frames agree but whose aggregate
// arguments differ in field count or nesting are aggregated at every level
// without a runtime panic, and no goroutine is lost.
//
//verif:prop C03
//verif:param n1 0..2
//verif:param n2 0..2
//verif:param nest 0..2
//verif:param level 0..3
//verif:replay-iters 50
func VH_C03_AggregateShapes(n1, n2, nest, level int) {
	mk := func(tag string, n int, nested bool) *Goroutine {
		g := &Goroutine{}
		g.State = "s"
		c := Call{}
		c.Func.Complete = "f"
		c.RemoteSrcPath = "/a.go"
		c.Line = 1
		var fields []Arg
		for i := 0; i < n; i++ {
			a := Arg{Value: uint64(vByte(tag + ".v" + string(rune('0'+i))))}
			if nested && i == n-1 {
				a = Arg{IsAggregate: true, Fields: Args{Values: []Arg{a}}}
			}
			fields = append(fields, a)
		}
		c.Args.Values = []Arg{{IsAggregate: true, Fields: Args{Values: fields}}, {Value: 1}}
		g.Stack.Calls = []Call{c}
		return g
	}
	s := &Snapshot{}
	a, b := mk("a", n1, nest == 1), mk("b", n2, nest == 2)
	a.ID, a.First, b.ID = 1, true, 2
	s.Goroutines = []*Goroutine{a, b}
	agg := s.Aggregate(Similarity(level))
	vReach("aggregated")
	total := 0
	for _, bk := range agg.Buckets {
		total += len(bk.IDs)
	}
	vAssert(total == 2, "no goroutine is lost")
}

// VH_C03_ScanKinds: the induction step of VH_C03_ScanStep for lines longer
// than its byte bound: every scanner state against every line kind of both
// grammars at full length (symbolic fields; ids, addresses and line numbers also
// at lengths the patterns accept and the conversions reject; intact or
// with one arbitrary byte at a chosen position) is scanned without a runtime
// panic and leaves a state satisfying Inv.
//
//verif:prop C03
//verif:param st 0..19
//verif:param kind 0..20
//verif:param corrupt quick=-1,0,11 thorough=-1..40
//verif:param plen 0..1
//verif:param sh 0..1
//verif:contract (*Func).Init parseArgs
//verif:summarize trimLeftSpace atou
func VH_C03_ScanKinds(st, kind, corrupt, plen, sh int) {
	ng, nc, ncb, gi := vhShape(st, sh)
	if state(st) == looking && plen != 0 {
		return // excluded by Inv
	}
	if (state(st) == gotRaceHeader1 || state(st) == gotRaceHeader2 || state(st) == looking) && sh != 0 {
		return
	}
	s := vhPre(st, plen, ng, nc, ncb, gi)
	line := vhCat(s.prefix, vhKindLine(kind, corrupt, 0))
	_, _ = s.scan(line)
	vReach("kind line scanned")
	vAssert(vhInv(s), "representation invariant holds after the step")
}
