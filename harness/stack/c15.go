//go:build verif

package stack

import (
	"fmt"
	"io"
)

// C15 — pointer pseudo-names. nameArguments (closure, map[uint64]object with
// symbolic keys, two map ranges in any order, sort.Sort) is executed from SSA.

// vhSlots builds a snapshot with n scalar argument slots; slot i lives in
// goroutine g[i] (0..2), frame 0; the first and the last slot sit inside nested aggregates.
// Values are symbolic 64-bit words; IsPtr is set as the parser sets it.
func vhSlots(g []int, tagp string) (*Snapshot, []*Arg) { return vhSlotsN(g, tagp, false) }

// vhSlotsN: with narrow, values are drawn from 256 pointers (0x100000+b) and 256
// small non-pointers instead of all 64-bit words (the code only compares and
// orders the values).
func vhSlotsN(g []int, tagp string, narrow bool) (*Snapshot, []*Arg) {
	s := &Snapshot{}
	for i := 0; i < 3; i++ {
		gr := &Goroutine{ID: i + 1, First: i == 0}
		gr.Stack.Calls = []Call{{}}
		s.Goroutines = append(s.Goroutines, gr)
	}
	type loc struct{ g, idx int }
	var locs []loc
	for i, gi := range g {
		v := vU64(fmt.Sprintf("%sv%d", tagp, i))
		if narrow {
			b := uint64(vByte(fmt.Sprintf("%sb%d", tagp, i)))
			v = uint64(vIte(vBool(fmt.Sprintf("%sp%d", tagp, i)), int(0x100000+b), int(b)))
		}
		a := Arg{Value: v, IsPtr: vAnd(v > pointerFloor, v < pointerCeiling)}
		args := &s.Goroutines[gi].Stack.Calls[0].Args
		if i == len(g)-1 || (i == 0 && len(g) >= 3) {
			// the first and the last slot sit inside nested aggregates: arguments
			// follow an aggregate and precede one
			args.Values = append(args.Values, Arg{IsAggregate: true, Fields: Args{Values: []Arg{{Value: 1}, a}}})
		} else {
			args.Values = append(args.Values, a)
		}
		locs = append(locs, loc{gi, len(args.Values) - 1})
	}
	// pointers are taken after all appends (no reallocation afterwards)
	slots := make([]*Arg, len(g))
	for i, l := range locs {
		a := &s.Goroutines[l.g].Stack.Calls[0].Args.Values[l.idx]
		if a.IsAggregate {
			a = &a.Fields.Values[1]
		}
		slots[i] = a
	}
	return s, slots
}

func vhNum(name string) int {
	n := 0
	for i := 1; i < len(name); i++ {
		n = n*10 + int(name[i]-'0')
	}
	return n
}

func vhC15(g []int) { vhC15N(g, false) }

func vhC15N(g []int, narrow bool) {
	s, slots := vhSlotsN(g, "", narrow)
	n := len(slots)
	before := make([]Arg, n)
	for i, a := range slots {
		before[i] = *a
	}
	nameArguments(s.Goroutines)
	vReach("named")
	// occurrence counts and primary membership per slot (symbolic)
	cnt := make([]int, n)
	inG0 := make([]bool, n)
	for i := range slots {
		c := 0
		p := false
		for j := range slots {
			same := vAnd(before[j].IsPtr, before[i].Value == before[j].Value)
			c = vIte(same, c+1, c)
			if g[j] == 0 {
				p = vOr(p, same)
			}
		}
		cnt[i], inG0[i] = c, p
	}
	maxNum := 0
	for i, a := range slots {
		vAssert(vAnd(a.Value == before[i].Value, vAnd(a.IsPtr == before[i].IsPtr, a.IsAggregate == before[i].IsAggregate)), "naming changes no other field")
		vAssert(vImplies(vNot(before[i].IsPtr), a.Name == ""), "values not classified as pointers are never named")
		vAssert(vImplies(vAnd(before[i].IsPtr, cnt[i] >= 2), a.Name != ""), "every pointer value occurring more than once is named")
		if a.Name != "" {
			vAssert(len(a.Name) >= 2 && a.Name[0] == '#', "names have the form #N")
			if m := vhNum(a.Name); m > maxNum {
				maxNum = m
			}
		}
		for j := i + 1; j < n; j++ {
			b := slots[j]
			bothPtr := vAnd(before[i].IsPtr, before[j].IsPtr)
			sameVal := before[i].Value == before[j].Value
			vAssert(vImplies(vAnd(bothPtr, sameVal), a.Name == b.Name), "the same pointer value always carries the same name")
			vAssert(vImplies(vAnd(bothPtr, vNot(sameVal)), vOr(a.Name == "", a.Name != b.Name)), "different values never share a name")
			if a.Name != "" && b.Name != "" && a.Name != b.Name {
				ni, nj := vhNum(a.Name), vhNum(b.Name)
				grpI := vAnd(cnt[i] >= 2, inG0[i])
				grpJ := vAnd(cnt[j] >= 2, inG0[j])
				vAssert(vImplies(vAnd(grpI, vNot(grpJ)), ni < nj), "pointers recurring in the first goroutine are numbered before the others")
				vAssert(vImplies(vAnd(grpJ, vNot(grpI)), nj < ni), "pointers recurring in the first goroutine are numbered before the others")
				vAssert(vImplies(grpI == grpJ, (before[i].Value < before[j].Value) == (ni < nj)), "names ascend with the address within a group")
			}
		}
	}
	// density: #1..#maxNum all occur
	for m := 1; m <= maxNum; m++ {
		want := fmt.Sprintf("#%d", m)
		found := false
		for _, a := range slots {
			if a.Name == want {
				found = true
			}
		}
		vAssert(found, "names are #1..#k without gaps")
	}
	// the constant non-pointer field next to the nested slot stays unnamed
	for _, gr := range s.Goroutines {
		for _, v := range gr.Stack.Calls[0].Args.Values {
			if v.IsAggregate {
				vAssert(v.Fields.Values[0].Name == "" && v.Name == "", "aggregate shells and constant fields stay unnamed")
			}
		}
	}
}

// VH_C15_Names3: three argument slots in every distribution over goroutines.
//
//verif:prop C15
//verif:param g0 0..2
//verif:param g1 0..2
//verif:param g2 0..2
//verif:replay-iters 100
func VH_C15_Names3(g0, g1, g2 int) { vhC15([]int{g0, g1, g2}) }

// VH_C15_Names4: four slots (thorough), values from a 512-element domain.
//
//verif:prop C15
//verif:tier thorough
//verif:param g0 0..1
//verif:param g1 0..1
//verif:param g2 0,2
//verif:param g3 0,2
//verif:replay-iters 100
func VH_C15_Names4(g0, g1, g2, g3 int) { vhC15N([]int{g0, g1, g2, g3}, true) }

// VH_C15_Off: with naming off the scanner never calls nameArguments — covered
// by the scan glue harness (C15 option gate); here: naming twice is idempotent
// and order independent (C06: two independent map orders give the same names).
//
//verif:prop C06
//verif:param g0 quick=0 thorough=0..2
//verif:param g1 quick=1 thorough=0..2
//verif:param g2 quick=1,2 thorough=0..2
//verif:replay-iters 100
func VH_C06_NamesDeterministic(g0, g1, g2 int) {
	g := []int{g0, g1, g2}
	s1, a1 := vhSlots(g, "")
	s2, a2 := vhSlots(g, "")
	for i := range a1 {
		vAssume(a1[i].Value == a2[i].Value)
	}
	nameArguments(s1.Goroutines)
	nameArguments(s2.Goroutines)
	vReach("named twice")
	for i := range a1 {
		vAssert(a1[i].Name == a2[i].Name, "pseudo-names do not depend on map iteration order")
	}
}

// VH_C06_PrefixDeterministic: hasPrefix / hasSrcPrefix give the same answer for
// every iteration order of the root map (two calls = two independent orders).
//
//verif:prop C06
//verif:param np 1..6
//verif:param n1 1..2
//verif:param n2 1..3
//verif:replay-iters 100
func VH_C06_PrefixDeterministic(np, n1, n2 int) {
	p := vString("p", np)
	k1, k2 := vString("k1", n1), vString("k2", n2)
	vAssume(k1 != k2)
	m := map[string]string{k1: "x", k2: "y"}
	a1, a2 := hasPrefix(p, m), hasPrefix(p, m)
	vReach("prefix lookups compared")
	vAssert(a1 == a2, "hasPrefix does not depend on map iteration order")
	// reference: some root r with p = r + "/" + non-empty rest
	want := false
	for _, r := range []string{k1, k2} {
		if len(p) > len(r)+1 {
			want = vOr(want, vAnd(p[:len(r)] == r, p[len(r)] == '/'))
		}
	}
	vAssert(a1 == want, "hasPrefix holds iff some root is a proper path prefix")
	b1, b2 := hasSrcPrefix(p, m), hasSrcPrefix(p, m)
	vAssert(b1 == b2, "hasSrcPrefix does not depend on map iteration order")
}

// VH_C15_Gate: with naming off no argument carries a name, whatever the other
// options are; with naming on the repeated pointer is named.
//
// tail: 0 = the stream ends after the dump; 1 = the dump continues with a
// malformed goroutine (the snapshot comes back together with a parse error);
// 2 = the reader fails with an error other than EOF; 3 = a race report whose
// frames carry arguments. The snapshot returned is
// named (or not) all the same.
//
//verif:prop C15
//verif:param opt 0..3
//verif:param tail 0..3
func VH_C15_Gate(opt, tail int) {
	root := vTempRoot()
	vSetFile(root + "/unrelated")
	opts := &Opts{LocalGOROOT: root + "/goroot", LocalGOPATHs: []string{root + "/gopath"}}
	switch opt {
	case 1:
		opts.GuessPaths = true
	case 2:
		opts.GuessPaths, opts.AnalyzeSources = true, true
	case 3:
		opts.NameArguments = true
	}
	dump := []byte("goroutine 1 [running]:\nmain.f(0xc000012340, 0xc000012340)\n\t/x/a.go:1 +0x1\n\ngoroutine 2 [running]:\nmain.g(0xc000012340)\n\t/x/a.go:2 +0x1\n\n")
	if tail == 1 {
		dump = append(dump, []byte("goroutine 3 [running]:\njunk\n")...)
	}
	if tail == 3 {
		// a race report whose frames carry arguments (the parser accepts them)
		dump = []byte(vhSep + "\n" + vhWarn + "\nWrite at 0x00c000010000 by goroutine 1:\n  main.f(0xc000012340, 0xc000012340)\n      /x/a.go:1 +0x1\n\n" +
			"Previous read at 0x00c000010000 by goroutine 2:\n  main.g(0xc000012340)\n      /x/a.go:2 +0x1\n\n" + vhSep + "\n")
	}
	s, _, err := ScanSnapshot(&vhFeeder{data: dump, failure: tail == 2}, &vhSink{}, opts)
	vReach("scanned with options")
	vAssert(s != nil && len(s.Goroutines) >= 2, "dump parsed")
	if s == nil {
		return
	}
	if tail == 1 || tail == 2 {
		vAssert(err != nil && err != io.EOF, "the snapshot comes back together with an error")
	}
	for _, g := range s.Goroutines {
		for _, c := range g.Stack.Calls {
			for _, a := range c.Args.Values {
				if opt == 3 {
					vAssert(a.Name == "#1", "with naming on the recurring pointer is named")
				} else {
					vAssert(a.Name == "", "with naming off no argument carries a name")
				}
			}
		}
	}
}
