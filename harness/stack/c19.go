//go:build verif

package stack

// C19 (reduced to the decode kernel) — augmentCall on parameter lists built as
// go/ast nodes, with symbolic argument words. strconv/fmt results are
// structured opaque strings (equal iff same function and equal arguments), so
// "rendered value = passed value" is decided as term equality.

import (
	"fmt"
	"go/ast"
	"math"
	"strconv"
)

// parameter kinds
const (
	vkInt = iota
	vkInt8
	vkInt16
	vkInt32
	vkInt64
	vkUint
	vkUint8
	vkUint16
	vkUint32
	vkUint64
	vkBool
	vkFloat32
	vkFloat64
	vkString
	vkSlice
	vkPtr
	vkMap
	vkChan
	vkFunc
	vkIface
	vkNone
	vkChanRecv
	vkChanSend
)

func vhTypeExpr(kind int) ast.Expr {
	id := func(n string) ast.Expr { return &ast.Ident{Name: n} }
	switch kind {
	case vkInt:
		return id("int")
	case vkInt8:
		return id("int8")
	case vkInt16:
		return id("int16")
	case vkInt32:
		return id("int32")
	case vkInt64:
		return id("int64")
	case vkUint:
		return id("uint")
	case vkUint8:
		return id("uint8")
	case vkUint16:
		return id("uint16")
	case vkUint32:
		return id("uint32")
	case vkUint64:
		return id("uint64")
	case vkBool:
		return id("bool")
	case vkFloat32:
		return id("float32")
	case vkFloat64:
		return id("float64")
	case vkString:
		return id("string")
	case vkSlice:
		return &ast.ArrayType{Elt: id("byte")}
	case vkPtr:
		return &ast.StarExpr{X: id("T")}
	case vkMap:
		return &ast.MapType{Key: id("string"), Value: id("int")}
	case vkChan:
		return &ast.ChanType{Dir: ast.SEND | ast.RECV, Value: id("int")}
	case vkChanRecv:
		return &ast.ChanType{Dir: ast.RECV, Value: id("int")}
	case vkChanSend:
		return &ast.ChanType{Dir: ast.SEND, Value: id("int")}
	case vkFunc:
		return &ast.FuncType{}
	default:
		return &ast.InterfaceType{}
	}
}

func vhWord(tag string) Arg {
	v := vU64(tag)
	return Arg{Value: v, IsPtr: vAnd(v > pointerFloor, v < pointerCeiling)}
}

// vhHexName: how a pointer-like word is shown: its pseudo-name when
// nameArguments gave it one, its value in hexadecimal otherwise.
func vhHexName(a *Arg) string {
	if a.Name != "" {
		return a.Name
	}
	return fmt.Sprintf("0x%x", a.Value)
}

// vhMaybeName: nameArguments may have named any word in the pointer range that
// recurs in the snapshot - whatever the parameter's real type is.
func vhMaybeName(tag string, a *Arg) {
	if vBool(tag + ".named") {
		vAssume(a.IsPtr)
		a.Name = "#7"
	}
}

// vhExpect appends the words the runtime prints for one parameter of the given
// kind holding an arbitrary value, and returns the rendering that is truthful
// for that value.
func vhExpect(tag string, kind int, words *[]Arg) string {
	add := func(a Arg) *Arg {
		vhMaybeName(tag+".w"+string(rune('0'+len(*words))), &a)
		*words = append(*words, a)
		return &(*words)[len(*words)-1]
	}
	raw := func(v uint64) Arg { return Arg{Value: v, IsPtr: vAnd(v > pointerFloor, v < pointerCeiling)} }
	switch kind {
	case vkInt, vkInt64:
		x := int64(vInt(tag))
		add(raw(uint64(x)))
		return strconv.FormatInt(x, 10)
	case vkInt8:
		x := int8(vInt(tag))
		add(raw(uint64(uint8(x))))
		return strconv.FormatInt(int64(x), 10)
	case vkInt16:
		x := int16(vInt(tag))
		add(raw(uint64(uint16(x))))
		return strconv.FormatInt(int64(x), 10)
	case vkInt32:
		x := int32(vInt(tag))
		add(raw(uint64(uint32(x))))
		return strconv.FormatInt(int64(x), 10)
	case vkUint, vkUint64:
		x := vU64(tag)
		add(raw(x))
		return strconv.FormatUint(x, 10)
	case vkUint8:
		x := uint8(vU64(tag))
		add(raw(uint64(x)))
		return strconv.FormatUint(uint64(x), 10)
	case vkUint16:
		x := uint16(vU64(tag))
		add(raw(uint64(x)))
		return strconv.FormatUint(uint64(x), 10)
	case vkUint32:
		x := uint32(vU64(tag))
		add(raw(uint64(x)))
		return strconv.FormatUint(uint64(x), 10)
	case vkBool:
		x := vBool(tag)
		if x {
			add(raw(1))
			return "true"
		}
		add(raw(0))
		return "false"
	case vkFloat32:
		bits := uint32(vU64(tag))
		add(raw(uint64(bits)))
		return strconv.FormatFloat(float64(math.Float32frombits(bits)), 'g', -1, 32)
	case vkFloat64:
		bits := vU64(tag)
		add(raw(bits))
		return strconv.FormatFloat(math.Float64frombits(bits), 'g', -1, 64)
	case vkString:
		p := add(vhWord(tag + ".ptr"))
		l := vU64(tag + ".len")
		add(raw(l))
		return fmt.Sprintf("string(%s, len=%s)", vhHexName(p), strconv.FormatUint(l, 10))
	case vkSlice:
		p := add(vhWord(tag + ".ptr"))
		l, c := vU64(tag+".len"), vU64(tag+".cap")
		add(raw(l))
		add(raw(c))
		return fmt.Sprintf("[]byte(%s len=%s cap=%s)", vhHexName(p), strconv.FormatUint(l, 10), strconv.FormatUint(c, 10))
	case vkPtr:
		p := add(vhWord(tag + ".ptr"))
		return fmt.Sprintf("*T(%s)", vhHexName(p))
	case vkMap:
		p := add(vhWord(tag + ".ptr"))
		return fmt.Sprintf("map[string]int(%s)", vhHexName(p))
	case vkChan, vkChanRecv, vkChanSend:
		// a channel of any direction is one pointer word
		p := add(vhWord(tag + ".ptr"))
		return fmt.Sprintf("chan int(%s)", vhHexName(p))
	case vkFunc:
		p := add(vhWord(tag + ".ptr"))
		return fmt.Sprintf("func(%s)", vhHexName(p))
	default:
		p := add(vhWord(tag + ".type"))
		add(vhWord(tag + ".data"))
		return fmt.Sprintf("interface{}(%s)", vhHexName(p))
	}
}

// VH_C19_Decode: every parameter list of up to three parameters over the
// supported kinds (optionally behind a pointer receiver): each rendered value
// is the value passed, the raw words are untouched, nothing panics.
//
//verif:prop C19
//verif:param k0 0..19,21,22
//verif:param k1 quick=20,0,4,9,13,16 thorough=0..22
//verif:param k2 quick=20,3 thorough=20,0,3,10,14
//verif:param recv 0..1
func VH_C19_Decode(k0, k1, k2, recv int) {
	f := &ast.FuncDecl{Name: &ast.Ident{Name: "f"}, Type: &ast.FuncType{Params: &ast.FieldList{}}}
	var words []Arg
	var want, alt []string
	if recv == 1 {
		f.Recv = &ast.FieldList{List: []*ast.Field{{Names: []*ast.Ident{{Name: "r"}}, Type: &ast.StarExpr{X: &ast.Ident{Name: "R"}}}}}
		p := vhWord("recv")
		words = append(words, p)
		want = append(want, fmt.Sprintf("*R(%s)", vhHexName(&p)))
		alt = append(alt, "")
	}
	for i, k := range []int{k0, k1, k2} {
		if k == vkNone {
			continue
		}
		f.Type.Params.List = append(f.Type.Params.List, &ast.Field{Names: []*ast.Ident{{Name: "a"}}, Type: vhTypeExpr(k)})
		w := vhExpect("p"+string(rune('0'+i)), k, &words)
		want = append(want, w)
		switch k {
		case vkChanRecv:
			alt = append(alt, fmt.Sprintf("<-chan int(%s)", vhHexName(&words[len(words)-1])))
		case vkChanSend:
			alt = append(alt, fmt.Sprintf("chan<- int(%s)", vhHexName(&words[len(words)-1])))
		default:
			alt = append(alt, "")
		}
	}
	c := &Call{}
	c.Args.Values = append([]Arg{}, words...)
	augmentCall(c, f)
	vReach("call augmented")
	vAssert(len(c.Args.Values) == len(words), "raw argument count untouched")
	for i := range words {
		if i < len(c.Args.Values) {
			vAssert(vAnd(c.Args.Values[i].Value == words[i].Value, c.Args.Values[i].IsPtr == words[i].IsPtr), "raw argument values untouched")
		}
	}
	vAssert(len(c.Args.Processed) == len(want), "one rendering per parameter")
	for i := range want {
		if i < len(c.Args.Processed) {
			if alt[i] != "" {
				// the type name may or may not show the channel's direction
				vAssert(vOr(c.Args.Processed[i] == want[i], c.Args.Processed[i] == alt[i]), "the rendered value is the value passed")
			} else {
				vAssert(c.Args.Processed[i] == want[i], "the rendered value is the value passed")
			}
		}
	}
}

// VH_C19_Mismatch: sources that do not match the binary (fewer or more
// parameters than words, variadic tails, too-large markers) never panic and
// never change the raw values.
//
//verif:prop C19
//verif:param nwords 0..4
//verif:param k0 quick=0,13,14,19,20 thorough=0..20
//verif:param k1 quick=20,10 thorough=20,0,10,13
//verif:param variadic 0..1
func VH_C19_Mismatch(nwords, k0, k1, variadic int) {
	f := &ast.FuncDecl{Name: &ast.Ident{Name: "f"}, Type: &ast.FuncType{Params: &ast.FieldList{}}}
	for _, k := range []int{k0, k1} {
		if k != vkNone {
			f.Type.Params.List = append(f.Type.Params.List, &ast.Field{Names: []*ast.Ident{{Name: "a"}}, Type: vhTypeExpr(k)})
		}
	}
	if variadic == 1 {
		f.Type.Params.List = append(f.Type.Params.List, &ast.Field{Names: []*ast.Ident{{Name: "v"}}, Type: &ast.Ellipsis{Elt: &ast.Ident{Name: "int"}}})
	}
	c := &Call{}
	var before []Arg
	for i := 0; i < nwords; i++ {
		a := vhWord("w" + string(rune('0'+i)))
		a.IsOffsetTooLarge = vBool("w" + string(rune('0'+i)) + ".toolarge")
		before = append(before, a)
	}
	c.Args.Values = append([]Arg{}, before...)
	augmentCall(c, f)
	vReach("mismatching call augmented")
	vAssert(len(c.Args.Values) == nwords, "raw argument count untouched")
	for i := range before {
		if i < len(c.Args.Values) {
			vAssert(vAnd(c.Args.Values[i].Value == before[i].Value, c.Args.Values[i].IsOffsetTooLarge == before[i].IsOffsetTooLarge), "raw argument values untouched")
		}
	}
}
