//go:build verif

package stack

// End-to-end harnesses on the real ScanSnapshot + real reader + real scan:
// streams are concrete skeletons of line kinds with symbolic fields.
// C02 (conservation), C07 (resumable multi-dump scanning), C10 (truncation and
// read failures), C11 (forwarding order).

import "io"

// vhFeeder delivers data in the largest chunks the caller accepts, then ends
// with EOF or a failure (after the data).
type vhFeeder struct {
	data    []byte
	pos     int
	failure bool
	sink    *vhSink
	lines   []int // end offsets of complete lines in data
	lineWise bool
	errWithData bool
	chunk    int  // >0: at most this many bytes per Read
	limit    int  // >0: only data[:limit] has been produced so far; asking for more would block
	blocked  bool // Read was called although nothing more was available
}

func (f *vhFeeder) Read(p []byte) (int, error) {
	if f.limit > 0 && f.pos >= f.limit {
		// the producer has stalled here: a real Read would block
		f.blocked = true
		return 0, io.EOF
	}
	if f.pos == len(f.data) {
		if f.failure {
			return 0, vhErrBoom
		}
		return 0, io.EOF
	}
	end := len(f.data)
	if f.lineWise {
		// deliver at most up to the end of the current line, then "block"
		for i := f.pos; i < len(f.data); i++ {
			if f.data[i] == '\n' {
				end = i + 1
				break
			}
		}
	}
	if f.limit > 0 && end > f.limit {
		end = f.limit
	}
	if f.chunk > 0 && end > f.pos+f.chunk {
		end = f.pos + f.chunk
	}
	n := copy(p, f.data[f.pos:end])
	f.pos += n
	if f.errWithData && f.pos == len(f.data) {
		// the end is signalled together with the last data
		if f.failure {
			return n, vhErrBoom
		}
		return n, io.EOF
	}
	return n, nil
}

// vhJunk: k bytes of pass-through text drawn from representative alphabets
// (letters, digits, blanks and the punctuation the grammars react to); the
// first byte cannot start a dump. End-to-end streams use alphabets instead of
// all 256 byte values so that positions of newlines stay concrete; arbitrary
// bytes are covered by the one-step harnesses.
func vhJunk(tag string, k int) []byte {
	b := make([]byte, k)
	for i := range b {
		if i == 0 {
			b[i] = vChoose(tag+string(rune('0'+i)), "aG0%:(.W")
		} else if i == k-1 {
			// not ')' : a text line must not look like a function line
			b[i] = vChoose(tag+string(rune('0'+i)), "a 0\t(:.g=%,[]{}")
		} else {
			b[i] = vChoose(tag+string(rune('0'+i)), "a 0\t(:).g=%,[]{")
		}
	}
	return b
}

func vhDigitsC(tag string, k int) []byte {
	b := make([]byte, k)
	for i := range b {
		if i == 0 {
			b[i] = vChoose(tag+string(rune('0'+i)), "12345679")
		} else {
			b[i] = vChoose(tag+string(rune('0'+i)), "0123456789012345")
		}
	}
	return b
}

type vhLineRec struct {
	start, end int
	dump       int // index of the dump the line belongs to, -1 for pass-through text
	blankAfter bool
}

type vhStreamSpec struct {
	data  []byte
	lines []vhLineRec
	dumps int
	gor   []int // goroutines per dump
}

func (sp *vhStreamSpec) add(dump int, parts ...[]byte) {
	st := len(sp.data)
	for _, p := range parts {
		sp.data = append(sp.data, p...)
	}
	sp.lines = append(sp.lines, vhLineRec{start: st, end: len(sp.data), dump: dump})
}

func (sp *vhStreamSpec) goroutine(dump int, tag string, created bool) {
	d := vhDigitsC(tag+".id", 1)
	sp.add(dump, []byte("goroutine "), d, []byte(" [running]:\n"))
	name := []byte{vChoose(tag+".n0", "fGx_"), vChoose(tag+".n1", "a1.*")}
	sp.add(dump, []byte("main."), name, []byte("()\n"))
	sp.add(dump, []byte("\t/a.go:1 +0x1\n"))
	if created {
		sp.add(dump, []byte("created by main.x\n"))
		sp.add(dump, []byte("\t/b.go:2 +0x2\n"))
	}
}

// vhSkeleton builds the stream for a skeleton id.
//
//	0 text only                      1 text, dump(1), blank, text
//	2 dump(1) ended directly by text 3 text, dump(2 goroutines), blank, text
//	4 text, dump(1) cut by the end of the stream (no blank)
//	5 dump(1), blank, text, dump(1), blank, text     (two dumps)
//	6 race report (2 operations, 1 creation section), text
//	7 dump(1), blank, race report, text              (dump followed by a race report)
//	8 text, separator, text (no report)              9 text, separator, warning, text
//	10 indented dump(2)   11 CRLF dump with minutes/lock/aggregate/elision   12 elided frames, creator id, unavailable stack
//	13 dump followed by two blank lines
func vhSkeleton(sk int) *vhStreamSpec {
	sp := &vhStreamSpec{}
	text := func(tag string) { sp.add(-1, vhJunk(tag, 3), []byte("\n")) }
	blank := func(d int) { sp.add(d, []byte("\n")) }
	race := func(d int) {
		sp.add(d, []byte(vhSep+"\n"))
		sp.add(d, []byte(vhWarn+"\n"))
		sp.add(d, []byte("Write at 0x00c000010000 by goroutine 7:\n"))
		sp.add(d, []byte("  main.f()\n"))
		sp.add(d, []byte("      /a.go:1 +0x1\n"))
		blank(d)
		sp.add(d, []byte("Previous read at 0x00c000010000 by goroutine 6:\n"))
		sp.add(d, []byte("  main.g()\n"))
		sp.add(d, []byte("      /a.go:2 +0x2\n"))
		blank(d)
		sp.add(d, []byte("Goroutine 7 (running) created at:\n"))
		sp.add(d, []byte("  main.h()\n"))
		sp.add(d, []byte("      /a.go:3 +0x3\n"))
		sp.add(d, []byte(vhSep+"\n"))
	}
	switch sk {
	case 0:
		text("t0")
		text("t1")
		sp.dumps = 0
	case 1:
		text("t0")
		sp.goroutine(0, "g0", false)
		blank(0)
		text("t1")
		sp.dumps, sp.gor = 1, []int{1}
	case 2:
		sp.goroutine(0, "g0", false)
		text("t1")
		sp.dumps, sp.gor = 1, []int{1}
	case 3:
		text("t0")
		sp.goroutine(0, "g0", false)
		blank(0)
		sp.goroutine(0, "g1", true)
		blank(0)
		text("t1")
		sp.dumps, sp.gor = 1, []int{2}
	case 4:
		text("t0")
		sp.goroutine(0, "g0", false)
		sp.dumps, sp.gor = 1, []int{1}
	case 5:
		sp.goroutine(0, "g0", false)
		blank(0)
		text("t0")
		sp.goroutine(1, "g1", true)
		blank(1)
		text("t1")
		sp.dumps, sp.gor = 2, []int{1, 1}
	case 6:
		race(0)
		text("t1")
		sp.dumps, sp.gor = 1, []int{2}
	case 7:
		sp.goroutine(0, "g0", false)
		blank(0)
		race(1)
		text("t1")
		sp.dumps, sp.gor = 2, []int{1, 2}
	case 8:
		text("t0")
		sp.add(-1, []byte(vhSep+"\n"))
		text("t1")
	case 9:
		text("t0")
		sp.add(-1, []byte(vhSep+"\n"))
		sp.add(-1, []byte(vhWarn+"\n"))
		text("t1")
	case 10:
		// uniformly indented dump of two goroutines
		text("t0")
		ind := []byte("  ")
		for gi := 0; gi < 2; gi++ {
			d := vhDigitsC("i"+string(rune('0'+gi))+".id", 1)
			sp.add(0, ind, []byte("goroutine "), d, []byte(" [select]:\n"))
			sp.add(0, ind, []byte("main.f(0x1)\n"))
			sp.add(0, ind, []byte("\t/a.go:1 +0x1\n"))
			sp.add(0, []byte("\n"))
		}
		// the text after an indented dump carries the same indentation (a line
		// with another indentation is reported as an error by design)
		sp.add(-1, ind, vhJunk("t1", 3), []byte("\n"))
		sp.dumps, sp.gor = 1, []int{2}
	case 11:
		// CRLF line endings throughout the dump
		text("t0")
		d := vhDigitsC("c.id", 2)
		sp.add(0, []byte("goroutine "), d, []byte(" [chan receive, 3 minutes, locked to thread]:\r\n"))
		sp.add(0, []byte("main.f({0x1, 0x2}, ...)\r\n"))
		sp.add(0, []byte("\t/a.go:1 +0x1\r\n"))
		sp.add(0, []byte("\r\n"))
		text("t1")
		sp.dumps, sp.gor = 1, []int{1}
	case 13:
		// two blank lines after the dump: only the first one belongs to it
		text("t0")
		sp.goroutine(0, "g0", true)
		blank(0)
		sp.add(-1, []byte("\n"))
		text("t1")
		sp.dumps, sp.gor = 1, []int{1}
	default:
		// elided frames, unavailable stack, creator with goroutine id
		sp.add(0, []byte("goroutine 1 [running]:\n"))
		sp.add(0, []byte("main.f()\n"))
		sp.add(0, []byte("\t/a.go:1 +0x1\n"))
		sp.add(0, []byte("...5 frames elided...\n"))
		sp.add(0, []byte("main.g()\n"))
		sp.add(0, []byte("\t/a.go:2 +0x1\n"))
		sp.add(0, []byte("created by net/http.(*Server).Serve in goroutine 7\n"))
		sp.add(0, []byte("\t/a.go:3 +0x1\n"))
		sp.add(0, []byte("\n"))
		sp.add(0, []byte("goroutine 2 [runnable]:\n"))
		sp.add(0, []byte("\tgoroutine running on other thread; stack unavailable\n"))
		sp.add(0, []byte("\n"))
		text("t1")
		sp.dumps, sp.gor = 1, []int{2}
	}
	return sp
}

// vhChain: the documented resume protocol — the remainder is fed back in front
// of the unread input.
type vhChain struct {
	head []byte
	rest io.Reader
}

func (c *vhChain) Read(p []byte) (int, error) {
	if len(c.head) > 0 {
		n := copy(p, c.head)
		c.head = c.head[n:]
		return n, nil
	}
	return c.rest.Read(p)
}

// VH_E2E_Resume: scanning the stream repeatedly (remainder fed back) yields one
// snapshot per dump with the right number of goroutines, forwards exactly the
// text outside the dumps in order, and terminates with EOF.  (C02, C07, C11)
//
//verif:prop C07
//verif:param sk 0..7,10..13
func VH_E2E_Resume(sk int) { vhResume(sk, "C07") }

// VH_C02_Conserve: the same run, asserted as stream conservation.
//
//verif:prop C02
//verif:param sk 0..13
func VH_C02_Conserve(sk int) { vhResume(sk, "C02") }

func vhResume(sk int, _ string) {
	sp := vhSkeleton(sk)
	f := &vhFeeder{data: sp.data}
	w := &vhSink{}
	var in io.Reader = f
	var want []byte // pass-through text
	for _, l := range sp.lines {
		if l.dump < 0 {
			want = append(want, sp.data[l.start:l.end]...)
		}
	}
	found := 0
	var err error
	for iter := 0; iter < sp.dumps+3; iter++ {
		var snap *Snapshot
		var suffix []byte
		snap, suffix, err = ScanSnapshot(in, w, &Opts{})
		if snap != nil {
			if found < sp.dumps {
				vAssert(len(snap.Goroutines) == sp.gor[found], "each snapshot holds exactly the goroutines of its dump")
			}
			found++
			// C03: every snapshot returned can be aggregated at every level
			if !snap.IsRace() {
				for lvl := ExactFlags; lvl <= AnyValue; lvl++ {
					a := snap.Aggregate(lvl)
					total := 0
					for _, b := range a.Buckets {
						total += len(b.IDs)
					}
					vAssert(total == len(snap.Goroutines), "a scanned snapshot aggregates without loss at every level")
				}
			}
		}
		if err != nil {
			w.buf = append(w.buf, suffix...)
			break
		}
		in = &vhChain{head: suffix, rest: in}
	}
	vReach("stream scanned to its end")
	vAssert(err == io.EOF, "repeated scanning ends with EOF")
	vAssert(found == sp.dumps, "exactly one snapshot per dump")
	vAssert(len(w.buf) == len(want), "the text outside the dumps is forwarded completely, and nothing else")
	if len(w.buf) == len(want) {
		same := true
		for i := range want {
			same = vAnd(same, w.buf[i] == want[i])
		}
		vAssert(same, "forwarded text is byte-for-byte the text outside the dumps, in order")
	}
}

// VH_C10_Cut: the stream ends (EOF or failure) after cut bytes. Goroutines whose
// text lay entirely before the cut are identical to the uncut run, only the
// goroutine being read may be partial, the error is EOF / the failure / a parse
// error, and what is forwarded is a prefix of what the uncut run forwards.
//
//verif:prop C10
//verif:param sk 1,3,6,10,11,12
//verif:param cut quick=0..160 thorough=0..400
//verif:param failure 0..3
func VH_C10_Cut(sk, cut, failure int) {
	withData := failure >= 2 // 2: EOF with the last data, 3: failure with the last data
	failure &= 1
	sp := vhSkeleton(sk)
	if cut > len(sp.data) {
		return
	}
	full := &vhFeeder{data: sp.data}
	wf := &vhSink{}
	sf, _, _ := ScanSnapshot(full, wf, &Opts{})
	part := &vhFeeder{data: sp.data[:cut], failure: failure == 1, errWithData: withData}
	wp := &vhSink{}
	scut, suffix, err := ScanSnapshot(part, wp, &Opts{})
	vReach("cut stream scanned")
	if err == nil {
		// the scan stopped at a line that ends the dump, before the end of the stream
		// (a race report ends on its own closing separator: the remainder may then be empty)
		vAssert(scut != nil && (len(suffix) > 0 || sk == 6), "a scan that reports no error stopped at the line ending a dump")
	} else if failure == 1 {
		vAssert(err == vhErrBoom, "a reader failure is reported as exactly that error")
	} else {
		vAssert(err != vhErrBoom, "a plain end of stream is reported as EOF or as a parse error")
	}
	// bytes forwarded (+ remainder) are a prefix of the uncut run's forwarding
	// unless the cut splits the first header line of the dump (then the partial
	// header is not yet recognisable and is forwarded: see DESIGN.md C10 note)
	firstDump := -1
	for i, l := range sp.lines {
		if l.dump >= 0 {
			firstDump = i
			break
		}
	}
	splitsHeader := firstDump >= 0 && cut > sp.lines[firstDump].start && cut < sp.lines[firstDump].end
	if sk == 6 && firstDump >= 0 && cut > sp.lines[firstDump+1].start && cut < sp.lines[firstDump+1].end {
		// race report: the warning line is the second recognition line; cut
		// inside it, it cannot be told from ordinary text either
		splitsHeader = true
	}
	if !splitsHeader {
		vAssert(len(wp.buf) <= len(wf.buf), "forwarded bytes are a prefix of the uncut stream's")
		if len(wp.buf) <= len(wf.buf) {
			same := true
			for i := range wp.buf {
				same = vAnd(same, wp.buf[i] == wf.buf[i])
			}
			vAssert(same, "forwarded bytes are a prefix of the uncut stream's")
		}
	}
	_ = suffix
	if sf == nil {
		return
	}
	// goroutines completed before the cut: every line of the goroutine (up to
	// the next header / end of dump) lies before cut
	ends := vhGoroutineEnds(sp)
	complete := 0
	for _, e := range ends {
		if e <= cut {
			complete++
		}
	}
	if complete > 0 {
		vAssert(scut != nil, "goroutines before the cut are returned")
	}
	if scut == nil {
		return
	}
	vAssert(len(scut.Goroutines) >= complete && len(scut.Goroutines) <= complete+1, "only the goroutine being read at the cut may be partial")
	for i := 0; i < complete && i < len(scut.Goroutines) && i < len(sf.Goroutines); i++ {
		a, b := scut.Goroutines[i], sf.Goroutines[i]
		vAssert(vAnd(a.ID == b.ID, vAnd(a.First == b.First, vAnd(a.RaceAddr == b.RaceAddr, a.RaceWrite == b.RaceWrite))), "a goroutine before the cut has the same identity")
		if sk != 6 {
			vAssert(vhSigEq(&a.Signature, &b.Signature), "a goroutine before the cut is identical to the uncut run's")
		} else {
			// race report: creation sections come after all operations; the
			// operation stack is complete before the cut
			vAssert(vhStackEq(&a.Stack, &b.Stack), "an operation stack before the cut is identical to the uncut run's")
		}
	}
}

// vhGoroutineEnds: for each goroutine (in order) the stream offset at which its
// text is complete (the end of its last line).
func vhGoroutineEnds(sp *vhStreamSpec) []int {
	var ends []int
	isHdr := func(l vhLineRec) bool {
		b := sp.data[l.start:l.end]
		for len(b) > 0 && (b[0] == ' ' || b[0] == '\t') {
			b = b[1:]
		}
		if len(b) > 11 && string(b[:10]) == "goroutine " && b[10] != 'r' {
			return true // "goroutine N [...]:" but not "goroutine running on other thread"
		}
		return len(b) > 10 && (string(b[:9]) == "Write at " || string(b[:9]) == "Previous ")
	}
	isSection := func(l vhLineRec) bool {
		b := sp.data[l.start:l.end]
		return len(b) > 10 && (string(b[:10]) == "Goroutine " || string(b[:10]) == "==========" || string(b[:10]) == "WARNING: D")
	}
	cur := -1
	for _, l := range sp.lines {
		if l.dump < 0 {
			continue
		}
		if isHdr(l) || isSection(l) {
			if cur >= 0 {
				ends = append(ends, cur)
			}
			cur = -1
			if isSection(l) {
				continue
			}
		}
		if l.end-l.start > 1 && (cur >= 0 || isHdr(l)) {
			cur = l.end
		}
	}
	if cur >= 0 {
		ends = append(ends, cur)
	}
	return ends
}

// VH_C11_ReturnsEarly: with a source that delivers one line at a time, the
// first scan returns as soon as the line ending the dump has been delivered:
// nothing beyond that line has been requested from the source.
//
//verif:prop C11
//verif:param sk 1,2,3,5
func VH_C11_ReturnsEarly(sk int) {
	sp := vhSkeleton(sk)
	f := &vhFeeder{data: sp.data, lineWise: true}
	w := &vhSink{}
	snap, suffix, err := ScanSnapshot(f, w, &Opts{})
	vReach("first scan returned")
	vAssert(snap != nil && err == nil, "the first dump is returned without error")
	// the terminating line: first pass-through line after the first dump
	term := -1
	seenDump := false
	for i, l := range sp.lines {
		if l.dump == 0 {
			seenDump = true
		}
		if seenDump && l.dump != 0 {
			term = i
			break
		}
	}
	if term < 0 {
		return
	}
	vAssert(f.pos == sp.lines[term].end, "nothing past the line that ends the dump has been requested")
	vAssert(len(suffix) == sp.lines[term].end-sp.lines[term].start, "the remainder is exactly that line")
}

// VH_C11_ReturnsAtStall: the producer delivers the whole trace plus the first
// extra bytes of the following line and then stalls: the scan returns the
// finished snapshot without asking for more input (for a race report the
// closing separator is the last line of the trace; for a goroutine dump the
// terminating line must be complete).
//
//verif:prop C11
//verif:param sk 6,7
//verif:param extra 1..2
func VH_C11_ReturnsAtStall(sk, extra int) {
	sp := vhSkeleton(sk)
	// end of the last dump's last line
	end := 0
	for _, l := range sp.lines {
		if l.dump == sp.dumps-1 {
			end = l.end
		}
	}
	f := &vhFeeder{data: sp.data, limit: end + extra}
	w := &vhSink{}
	var in io.Reader = f
	var snap *Snapshot
	var err error
	for i := 0; i < sp.dumps; i++ {
		var suffix []byte
		snap, suffix, err = ScanSnapshot(in, w, &Opts{})
		in = &vhChain{head: suffix, rest: in}
	}
	vReach("race report delivered, producer stalled")
	vAssert(snap != nil && err == nil, "the finished report is returned")
	vAssert(!f.blocked, "the scan returns without asking the stalled producer for more")
}

func vhScanOnce(data []byte, ewd bool, chunk int) (ngor int, fwd, suffix []byte, err error) {
	f := &vhFeeder{data: data, errWithData: ewd, chunk: chunk}
	w := &vhSink{}
	snap, suffix, err := ScanSnapshot(f, w, &Opts{})
	ngor = -1
	if snap != nil {
		ngor = len(snap.Goroutines)
	}
	return ngor, w.buf, suffix, err
}

// vhErrClass: nil, io.EOF, or a parse error (built afresh by every call).
func vhErrClass(err error) int {
	switch err {
	case nil:
		return 0
	case io.EOF:
		return 1
	}
	return 2
}

func vhSameBytes(a, b []byte) bool {
	if len(a) != len(b) {
		return false
	}
	same := true
	for i := range a {
		same = vAnd(same, a[i] == b[i])
	}
	return same
}

// VH_C06_ScanTwice: nothing observable depends on earlier calls in the same
// process: the same stream, delivered the same way (whole or in 7-byte pieces,
// the end signalled with or after the last data), scanned three times in a row
// from fresh readers gives the same snapshot size, forwarded text, remainder
// and error each time. (State kept between calls - caches, pools - must not
// leak into results; sync.Pool is modelled as returning either a recycled or a
// new object.)
//
//verif:prop C06
//verif:param sk 1,2,4,6,9
//verif:param ewd 0..1
//verif:param chunk 0,7
func VH_C06_ScanTwice(sk, ewd, chunk int) {
	sp := vhSkeleton(sk)
	n1, f1, s1, e1 := vhScanOnce(sp.data, ewd == 1, chunk)
	for iter := 0; iter < 2; iter++ {
		n2, f2, s2, e2 := vhScanOnce(sp.data, ewd == 1, chunk)
		vAssert(n1 == n2, "a repeated scan finds the same snapshot")
		vAssert(vhErrClass(e1) == vhErrClass(e2), "a repeated scan returns the same error")
		vAssert(vhSameBytes(f1, f2), "a repeated scan forwards the same text")
		vAssert(vhSameBytes(s1, s2), "a repeated scan returns the same remainder")
	}
	vReach("scanned repeatedly")
}

// VH_C11_DumpReturnsAtStall: a goroutine dump (with or without the blank line
// after it, with or without a creator), the complete line that ends it and the
// first extra bytes of the line after that arrive in one delivery, then the
// producer stalls: the scan returns the finished snapshot without asking for
// more input, and hands back the ending line and the extra bytes.
//
// Run at the real reader buffer size, where one delivery is buffered whole.
//
//verif:prop C11
//verif:realsize
//verif:param blank 0..1
//verif:param created 0..1
//verif:param extra 0..2
func VH_C11_DumpReturnsAtStall(blank, created, extra int) {
	sp := &vhStreamSpec{}
	sp.add(-1, vhJunk("t0", 3), []byte("\n"))
	sp.goroutine(0, "g0", created == 1)
	if blank == 1 {
		sp.add(0, []byte("\n"))
	}
	endStart := len(sp.data)
	sp.add(-1, vhJunk("t1", 3), []byte("\n"))
	endEnd := len(sp.data)
	sp.add(-1, vhJunk("t2", 3), []byte("\n"))
	f := &vhFeeder{data: sp.data, limit: endEnd + extra}
	w := &vhSink{}
	snap, suffix, err := ScanSnapshot(f, w, &Opts{})
	vReach("dump delivered with the start of a later line, producer stalled")
	vAssert(snap != nil && err == nil, "the finished dump is returned")
	vAssert(!f.blocked, "the scan returns without asking the stalled producer for more")
	vAssert(len(suffix) == f.pos-endStart, "the remainder is the line that ended the dump and whatever was read past it")
}

// VH_C10_CutResolved: with path guessing on (declared file system: the file of
// the first goroutine exists under the local GOPATH), a dump of two goroutines
// is cut inside the second one - by the end of the stream or by a reader
// failure: the first goroutine, complete before the cut, comes back exactly as
// from the uncut stream, local path and location class included.
//
//verif:prop C10
//verif:param cut 0..5
//verif:param failure 0..1
func VH_C10_CutResolved(cut, failure int) {
	b := vBytes("pkg", 1)
	vAssume(vAnd(b[0] >= 'a', b[0] <= 'z'))
	rel := string(b) + "/x.go"
	root := vTempRoot()
	opts := &Opts{LocalGOROOT: root + "/goroot", LocalGOPATHs: []string{root + "/gopath"}, GuessPaths: true}
	vSetFile(root + "/gopath/src/" + rel)
	first := "goroutine 1 [running]:\nmain.f()\n\t/r/src/" + rel + ":3 +0x1\n\n"
	second := "goroutine 2 [running]:\nmain.g(0x1)\n\t/r/src/" + rel + ":4 +0x1\n\n"
	full, _, _ := ScanSnapshot(&vhFeeder{data: []byte(first + second)}, &vhSink{}, opts)
	// cuts inside the second goroutine: in its header, after it, inside the
	// function line, after it, inside the file line, before its end
	offs := []int{5, 23, 27, 35, 40, len(second) - 2}
	data := []byte(first + second[:offs[cut]])
	s, _, err := ScanSnapshot(&vhFeeder{data: data, failure: failure == 1}, &vhSink{}, opts)
	vReach("cut stream scanned with path guessing")
	vAssert(full != nil && len(full.Goroutines) == 2 && s != nil && len(s.Goroutines) >= 1, "both streams yield the first goroutine")
	if full == nil || s == nil || len(s.Goroutines) == 0 {
		return
	}
	if failure == 1 {
		vAssert(err != nil && err != io.EOF, "the reader failure is reported")
	}
	want, got := &full.Goroutines[0].Stack.Calls[0], &s.Goroutines[0].Stack.Calls[0]
	vAssert(want.LocalSrcPath == root+"/gopath/src/"+rel && want.Location == GOPATH, "the uncut stream resolves the first goroutine")
	vAssert(got.LocalSrcPath == want.LocalSrcPath && got.RelSrcPath == want.RelSrcPath && got.Location == want.Location && got.Line == want.Line,
		"a goroutine complete before the cut is the same as from the uncut stream, resolved paths included")
}
