//go:build verif

package stack

// C09 / C11 / C10 / C03 — the buffered line reader under every delivery
// schedule. The io.Reader is a scripted stub: each Read hands out an arbitrary
// 0 <= n <= min(len(p), remaining) bytes of a symbolic stream and may report the
// end (EOF or a failure) together with or after the last data. These harnesses
// are run with the overlay copy of reader.go whose buffer is reduced to a few
// bytes (-bufsize), so that lines shorter than, equal to and several times
// longer than the buffer all occur within small streams.

import (
	"errors"
	"io"
)

var vhErrBoom = errors.New("boom")

type vhStream struct {
	data      []byte
	fed       int
	failure   bool // end signalled by a non-EOF error
	r         *reader
	zeroLeft  int // how many more empty reads may be injected
	reads     int
	endSeen   bool
	noProgess bool // return (0, nil) forever once the data is out
	sink      *vhSink
}

func (g *vhStream) Read(p []byte) (int, error) {
	g.reads++
	if g.r != nil {
		// C11: never ask for more while a complete line is already buffered
		buffered := g.r.buf[g.r.r:g.r.w]
		has := false
		for _, b := range buffered {
			has = vOr(has, b == '\n')
		}
		vAssert(vNot(has), "Read is not called while a complete line is buffered")
	}
	vAssert(len(p) > 0, "Read is never called with an empty buffer")
	if g.sink != nil {
		// C11: at every point where the source may block, every complete line
		// delivered so far has already been forwarded (dump-free streams)
		last := 0
		for i := 0; i < g.fed; i++ {
			last = vIte(g.data[i] == '\n', i+1, last)
		}
		vAssert(len(g.sink.buf) == last, "every complete line delivered so far has been written before the next Read")
	}
	rem := len(g.data) - g.fed
	n := vInt("chunk")
	vAssume(0 <= n)
	vAssume(n <= len(p))
	vAssume(n <= rem)
	if g.zeroLeft == 0 && rem > 0 {
		vAssume(n > 0)
	}
	n = vConcretize(n)
	if n == 0 && rem > 0 {
		g.zeroLeft--
	}
	copy(p, g.data[g.fed:g.fed+n])
	g.fed += n
	if g.fed == len(g.data) {
		if g.noProgess {
			return n, nil
		}
		// end of stream: with the last data or on a later call
		if n == 0 || vBool("end-with-data") {
			g.endSeen = true
			if g.failure {
				return n, vhErrBoom
			}
			return n, io.EOF
		}
	}
	return n, nil
}

// VH_C09_ReadLine: the sequence of lines returned by readLine, their
// concatenation and the final error depend only on the stream content.
//
//verif:prop C09
//verif:param total quick=0..5 thorough=0..6
//verif:param failure 0..1
//verif:param zeros quick=0 thorough=0..1
//verif:maxdec 100000
//verif:bufsensitive
func VH_C09_ReadLine(total, failure, zeros int) {
	data := vBytes("stream", total)
	g := &vhStream{data: data, failure: failure == 1, zeroLeft: zeros}
	r := &reader{rd: g}
	g.r = r
	var got []byte
	pos := 0
	for iter := 0; ; iter++ {
		vAssert(iter <= total+1, "readLine makes progress: at most one call per byte plus one")
		if iter > total+1 {
			return
		}
		d, err := r.readLine()
		// the line is exactly the next bytes of the stream
		vAssert(pos+len(d) <= total, "no byte is invented")
		if pos+len(d) > total {
			return
		}
		same := true
		for i := range d {
			same = vAnd(same, d[i] == data[pos+i])
		}
		vAssert(same, "lines reproduce the stream bytes in order")
		// and ends at the first newline at or after pos
		for i := 0; i+1 < len(d); i++ {
			vAssert(d[i] != '\n', "a line holds no newline before its last byte")
		}
		got = append(got, d...)
		pos += len(d)
		if err == nil {
			vAssert(len(d) > 0 && d[len(d)-1] == '\n', "a line returned without error ends with its newline")
			continue
		}
		vAssert(len(d) == 0 || d[len(d)-1] != '\n', "the final partial line has no newline")
		vAssert(pos == total, "everything delivered has been returned when the error is reported")
		if failure == 1 {
			vAssert(err == vhErrBoom, "a reader failure is reported as exactly that error")
		} else {
			vAssert(err == io.EOF, "a plain end of stream is reported as EOF")
		}
		vAssert(len(r.buffered()) == 0, "nothing stays buffered after the end")
		break
	}
	vReach("stream read to its end")
}

// VH_C09_NoProgress: a reader that keeps returning (0, nil) ends with
// io.ErrNoProgress after the retry bound instead of looping or panicking.
//
//verif:prop C09
//verif:param total 0..3
//verif:maxsteps 20000000
//verif:bufsensitive
func VH_C09_NoProgress(total int) {
	data := vBytes("stream", total)
	for _, b := range data {
		vAssume(b != '\n')
	}
	g := &vhStream{data: data, noProgess: true}
	r := &reader{rd: g}
	g.r = r
	var got []byte
	var err error
	for i := 0; i < total+2 && err == nil; i++ {
		var d []byte
		d, err = r.readLine()
		got = append(got, d...)
	}
	vReach("stalled reader handled")
	vAssert(err == io.ErrNoProgress, "a stalled reader is reported as io.ErrNoProgress")
	vAssert(len(got) == total, "bytes delivered before the stall are returned")
	vAssert(g.reads <= 100*(total+2), "the retry bound limits the number of reads")
}

// vhSink records what the scanner forwards.
type vhSink struct {
	buf    []byte
	stream *vhStream
}

func (w *vhSink) Write(p []byte) (int, error) {
	w.buf = append(w.buf, p...)
	return len(p), nil
}

// VH_C02_PassThrough: a stream without any dump is forwarded byte for byte
// under every delivery schedule, nothing is returned as remainder, and (C11)
// every complete line delivered so far has been written whenever the reader is
// asked for more.
//
//verif:prop C02
//verif:param total quick=0..4 thorough=0..6
//verif:param failure 0..1
//verif:maxdec 100000
//verif:bufsensitive
func VH_C02_PassThrough(total, failure int) {
	data := vBytes("stream", total)
	// junk only: no line may look like the start of a dump (first byte is not
	// a blank, 'g' or '=')
	for i, b := range data {
		if i == 0 {
			vAssume(vAnd(b != 'g', vAnd(b != '=', vAnd(b != ' ', b != '\t'))))
		} else {
			vAssume(vImplies(data[i-1] == '\n', vAnd(b != 'g', vAnd(b != '=', vAnd(b != ' ', b != '\t')))))
		}
	}
	g := &vhStream{data: data, failure: failure == 1}
	w := &vhSink{stream: g}
	g.sink = w
	snap, suffix, err := ScanSnapshot(g, w, &Opts{})
	vReach("dump-free stream scanned")
	vAssert(snap == nil, "no snapshot without a dump")
	vAssert(len(suffix) == 0, "no remainder without a dump")
	if failure == 1 {
		vAssert(err == vhErrBoom, "reader failure reported as such")
	} else {
		vAssert(err == io.EOF, "end of stream reported as EOF")
	}
	vAssert(len(w.buf) == total, "every byte is forwarded exactly once")
	if len(w.buf) == total {
		same := true
		for i := range data {
			same = vAnd(same, w.buf[i] == data[i])
		}
		vAssert(same, "forwarded bytes equal the input")
	}
}

// VH_C11_ReadLine: the reader never asks for more input while a complete line
// is buffered (assertion inside the scripted Read), under every schedule.
//
//verif:prop C11
//verif:param total quick=0..5 thorough=0..6
//verif:param failure 0
//verif:param zeros quick=0 thorough=0
//verif:maxdec 100000
//verif:bufsensitive
func VH_C11_ReadLine(total, failure, zeros int) { VH_C09_ReadLine(total, failure, zeros) }

// VH_C11_Forward: as a live filter, every complete line has been written by the
// time the source is asked for more (assertion inside the scripted Read).
//
//verif:prop C11
//verif:param total quick=0..4 thorough=0..5
//verif:param failure 0
//verif:maxdec 100000
//verif:bufsensitive
func VH_C11_Forward(total, failure int) { VH_C02_PassThrough(total, failure) }

// vhNoAlias: nothing kept in the scanner state shares memory with the line
// buffer (which the reader overwrites on the next fill).
func vhNoAlias(s *scanningState, line []byte) {
	vAssert(!vSharesMemory(s.prefix, line), "the indentation prefix is a copy, not a view of the reader's buffer")
	for _, g := range s.Goroutines {
		vAssert(!vStrSharesMemory(g.State, line), "goroutine state is a copy")
		for _, st := range []*Stack{&g.Stack, &g.CreatedBy} {
			for i := range st.Calls {
				c := &st.Calls[i]
				bad := vStrSharesMemory(c.Func.Complete, line) || vStrSharesMemory(c.Func.Name, line) || vStrSharesMemory(c.Func.ImportPath, line) ||
					vStrSharesMemory(c.RemoteSrcPath, line) || vStrSharesMemory(c.SrcName, line) || vStrSharesMemory(c.DirSrc, line) || vStrSharesMemory(c.ImportPath, line)
				vAssert(!bad, "parsed strings are copies, not views of the reader's buffer")
			}
		}
	}
}

// VH_C09_Copies: line slices alias the reader's buffer; whatever scan() stores
// from a line (indentation, state text, symbols, paths) must be a copy.
//
//verif:prop C09
//verif:param kind 0..4
func VH_C09_Copies(kind int) {
	var s *scanningState
	var line []byte
	switch kind {
	case 0:
		s = vhPre(int(looking), 0, 0, 0, 0, 0)
		line = vhCat(vhIndent("indent", 2), []byte("goroutine 7 ["), vBytes("st", 3), []byte("]:\n"))
		for _, ch := range line[15:18] {
			vAssume(vAnd(ch != ']', vAnd(ch != '\n', ch != ',')))
		}
	case 1:
		s = vhPre(int(gotRoutineHeader), 0, 1, 0, 0, 0)
		raw, _, _ := vhSymbol("sym", 2)
		line = vhCat(raw, []byte("(0x1)\n"))
	case 2:
		s = vhPre(int(gotFunc), 0, 1, 1, 0, 0)
		line = []byte("\t/d/f.go:12 +0x1\n")
	case 3:
		s = vhPre(int(gotFileFunc), 0, 1, 1, 0, 0)
		raw, _, _ := vhSymbol("sym", 1)
		line = vhCat([]byte("created by "), raw, []byte("\n"))
	default:
		s = vhPre(int(betweenRaceGoroutines), 0, 2, 1, 0, 0)
		s.Goroutines[0].ID = 7
		line = []byte("Goroutine 7 (finished) created at:\n")
	}
	proc, err := s.scan(line)
	vReach("line scanned")
	vAssert(proc && err == nil, "line consumed")
	vhNoAlias(s, line)
}

// vhStall answers (0, nil) a fixed number of times before each delivery.
type vhStall struct {
	data   []byte
	pos    int
	stall  int
	remain int
}

func (g *vhStall) Read(p []byte) (int, error) {
	if g.remain > 0 {
		g.remain--
		return 0, nil
	}
	if g.pos == len(g.data) {
		return 0, io.EOF
	}
	g.remain = g.stall
	n := copy(p, g.data[g.pos:])
	g.pos += n
	return n, nil
}

// VH_C09_Retry: up to 99 consecutive empty reads before data are tolerated (the
// result is the same as without them); the 100th makes io.ErrNoProgress.
//
//verif:prop C09
//verif:param z 0,1,98,99,100
//verif:bufsensitive
//verif:maxsteps 20000000
func VH_C09_Retry(z int) {
	data := []byte{vChoose("b0", "ab\n"), vChoose("b1", "ab\n"), '\n'}
	g := &vhStall{data: data, stall: z, remain: z}
	r := &reader{rd: g}
	var got []byte
	var err error
	for i := 0; i < 5 && err == nil; i++ {
		var d []byte
		d, err = r.readLine()
		got = append(got, d...)
	}
	vReach("stalling source read")
	if z < 100 {
		vAssert(err == io.EOF, "fewer than 100 consecutive empty reads do not change the outcome")
		vAssert(len(got) == len(data), "all data is returned despite empty reads")
	} else {
		vAssert(err == io.ErrNoProgress, "100 consecutive empty reads are reported as io.ErrNoProgress")
	}
}

// VH_C09_RealSize: the reader at its real buffer size (run without the
// reduced-buffer overlay): a stream of total bytes with distinct neighbouring
// content whose only certain newline is the last byte before a short tail; each
// byte at nl symbolic positions around the first buffer boundary (16381..16386)
// and around the second (32766..32769) is either its ordinary value or a
// newline, so lines of every length 16382..16387 (and sums with the following
// ones) arise; delivered whole or in chunks. The lines returned are the stream
// cut at its newlines.
//
//verif:prop C09
//verif:realsize
//verif:param total 16382..16388,32767..32770,49153
//verif:param chunk 0,16384,4096,1000
//verif:param nl quick=0..2 thorough=0..3
//verif:maxsteps 400000000
//verif:maxdec 200000
func VH_C09_RealSize(total, chunk, nl int) {
	data := make([]byte, 0, total+5)
	for i := 0; i < total-1; i++ {
		data = append(data, byte('a'+i%23))
	}
	data = append(data, '\n')
	data = append(data, []byte("tail\n")...)
	// symbolic newline positions around the buffer boundaries
	var cand [][]int
	switch nl {
	case 0:
		cand = [][]int{{16381, 16384}}
	case 1:
		cand = [][]int{{16382, 16383}, {16385}}
	case 2:
		cand = [][]int{{16380, 16386}, {32766, 32768}}
	default:
		cand = [][]int{{16383, 16384, 16385}, {32767, 32769}}
	}
	for _, grp := range cand {
		for _, p := range grp {
			if p < total-1 {
				data[p] = byte(vIte(vBool("nl"), '\n', int(data[p])))
			}
		}
	}
	f := &vhFeeder{data: data, chunk: chunk}
	r := &reader{rd: f}
	pos := 0
	for iter := 0; iter < 10; iter++ {
		d, err := r.readLine()
		// case split on the buffer indices (identity natively): the next call
		// starts from concrete indices instead of a guarded value set
		r.r, r.w = vConcretize(r.r), vConcretize(r.w)
		// expected: up to and including the next newline
		end := pos
		for end < len(data) {
			end++
			if data[end-1] == '\n' {
				break
			}
		}
		vAssert(len(d) == end-pos, "line length is the distance to the next newline")
		if len(d) == end-pos {
			same := true
			for i := range d {
				same = vAnd(same, d[i] == data[pos+i])
			}
			vAssert(same, "line content reproduces the stream")
		}
		pos = vConcretize(pos + len(d))
		if err != nil {
			vAssert(err == io.EOF && pos == len(data), "EOF after the whole stream")
			break
		}
	}
	vReach("long lines read at the real buffer size")
	vAssert(pos == len(data), "the whole stream has been returned")
}
