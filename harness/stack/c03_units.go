//go:build verif

package stack

// C03 — unit harnesses: parsing helpers never panic on any byte string of the
// given length (every implicit bounds/nil/divide check and every explicit panic
// is a solver obligation inside the engine).

// VH_C03_FuncInit: Func.Init on every string of length n.
//
//verif:prop C03
//verif:param n quick=0..7 thorough=0..11
func VH_C03_FuncInit(n int) {
	raw := vString("raw", n)
	f := Func{}
	err := f.Init(raw)
	vReach("Func.Init returned")
	if err == nil {
		vAssert(len(f.Name) <= len(f.Complete), "name is part of the complete reference")
	}
}

// VH_C03_ParseArgs: parseArgs on every byte string of length n.
//
//verif:prop C03
//verif:param n quick=0..6 thorough=0..10
func VH_C03_ParseArgs(n int) {
	line := vBytes("args", n)
	a, err := parseArgs(line)
	vReach("parseArgs returned")
	if err != nil {
		vAssert(len(a.Values) == 0, "no arguments are returned with an error")
	}
}

// VH_C03_Atou: atou on every digit/non-digit string up to 20 bytes.
//
//verif:prop C03
//verif:param n 0..20
func VH_C03_Atou(n int) {
	s := vBytes("num", n)
	v, ok := atou(s)
	vReach("atou returned")
	vAssert(vImplies(ok, v >= 0), "a parsed number is never negative")
	vAssert(vImplies(vNot(ok), v == 0), "a rejected number yields 0")
}

// VH_C03_Trim: trimCurlyBrackets / trimLeftSpace stay within bounds.
//
//verif:prop C03
//verif:param n 0..8
func VH_C03_Trim(n int) {
	s := vBytes("s", n)
	o, mid, c := trimCurlyBrackets(s)
	vReach("trimmed")
	vAssert(o+len(mid)+c == n, "trimCurlyBrackets accounts for every byte")
	t := trimLeftSpace(s)
	vAssert(len(t) <= n, "trimLeftSpace never grows")
}

// VH_C03_ParseFile: parseFile on every line of length n.
//
//verif:prop C03
//verif:param n quick=0..12 thorough=0..28
func VH_C03_ParseFile(n int) {
	line := vBytes("line", n)
	c := Call{}
	found, err := parseFile(&c, line)
	vReach("parseFile returned")
	if err != nil {
		vAssert(found, "parseFile only reports an error for a file line")
	}
}
